"""C19 — a cache hit is declared only when a fresh run would give the cached results.

Tie B, five streams.

(1) Histories through the REAL CLI in a temp project outside /verif and /repo. The project has the target,
    two local modules (direct -> transitive), a capitalised local module, two modules in a fake
    `site-packages` directory and two stdlib-NAMED modules on PYTHONPATH; any of them is edited, the
    options change (follow level 0..3, excluded imports / names incl. near-collisions: letter case, order,
    repetition, white space, equivalent regexes, the other field; through short / long flags or
    pyproject.toml), runs with `--cache-file` and `-r` in between. After every run we record: the
    'cache is up-to-date' info line, the exit status, whether the cache file was rewritten, its bytes.
    Independent oracle: a from-scratch run (`-o cacheable`, no cache file) in the same project state:
    a hit is legal only if that run succeeds and prints exactly the cached document; after a miss the
    written cache is exactly that document. The Lean state machine (`CacheDeps.stepG` over the modelled
    dependency computation: import follower of C12 + make_cacheable_import_info + is_in_import_blacklist
    / is_in_pip + the hashed option tuple) is fed the same op sequence with content hashes, my own scan
    of every file's imports, `re.fullmatch` / isort verdicts, and — as the only facts taken from the
    from-scratch run — its results digest and whether it ended fatally for a reason other than the
    import stage; it must predict hit / miss / fatal and the document on disk (incl. the import list
    and the arguments key) after every step. The model's follower / recorded list is additionally
    compared with a second, independent Python reading (`expected_analysis`).

(2) make_arguments_hash in-process on ~1100 option sets vs the Lean `argsKey`: equal hashes iff equal
    keys; oracle: equal hashes only for equal follow level and equal pattern SETS.

(3) The real import follower + make_cacheable_import_info in-process with an audit hook on open():
    every source file opened while the follower runs must be the target or a recorded origin; the Lean
    model must predict exactly the files opened, the keys of import_irs and the recorded origins.

(4) Corruptions of a real cache file through `target_cache_file_is_up_to_date` in-process
    (`impl.outcome_of`): truncation at EVERY byte offset, every node of the document replaced by
    null / numbers / bool / strings / lists / dicts, top-level scalars, arrays, strings naming a
    field, empty file, BOM, invalid UTF-8, values json.loads itself refuses (nesting depth, int size),
    import paths that are not files / cannot be stat'ed / cannot be read; a sample re-run through the
    CLI. Expected: stale. The Lean model of `deserialise` + gate (`Cache.structureDoc`, `Cache.gateJIO`)
    must predict the exact outcome class of every case.

    Since the upstream fix 16f7ad6 (`except Exception` around read_text/deserialise) every former
    `cache-gate-crash:*` class is answered stale; the stream is kept unchanged so that a regression is
    a VIOLATION (those signatures are `fixed`, not `known`, in known_findings.json). What can still
    raise is the conjunction after the try: OSError from hash_file_content on an unreadable regular file.

(5) hash_file_content vs md5 of the whole file around the block-size boundaries.
"""
from __future__ import annotations

import concurrent.futures as cf
import copy
import hashlib
import importlib.util
import itertools
import json
import os
import random
import re
import shutil
import subprocess
import sys
import tempfile
from pathlib import Path

import common
import impl

PID = "C19"
TABLES = ["C12"]      # the import follower of the dependency theorems is C12's model: its Tie A tables too
TMPROOT = "/tmp"
HITLINE = "cache is up-to-date"

# ------------------------------------------------------------------ project family

# (source, imported module names)
TARGET = [
    ("from direct import helper\n\n\ndef top(a):\n    a.x = 1\n    return helper(a)\n", ["direct"]),
    ("# a comment\nfrom direct import helper\n\n\ndef top(a):\n    a.x = 1\n    return helper(a)\n", ["direct"]),
    ("from direct import helper\n\n\ndef top(a):\n    a.x = 1\n    return helper(a.inner)\n\n\ndef other(b):\n    return b.q\n", ["direct"]),
    ("from direct import helper\n\n\ndef top(a):\n    a.x = 1\n    return helper(a) + undefined_fn(a.k)\n", ["direct"]),  # badness 2
]
DIRECT = [
    ("from trans import leaf\n\n\ndef helper(b):\n    b.y\n    return leaf(b)\n", ["trans"]),
    ("from trans import leaf\n\n\ndef helper(b):\n    b.yy\n    return leaf(b)\n", ["trans"]),
    ("def helper(b):\n    return b.solo\n", []),
    ("import math\nfrom trans import leaf\n\n\ndef helper(b):\n    b.y\n    return leaf(b.m)\n", ["math", "trans"]),
]
TRANS = [
    ("def leaf(c):\n    return c.z\n", []),
    ("def leaf(c):\n    return c.zz\n", []),
    ("# note\ndef leaf(c):\n    return c.z\n", []),
]


def _block_size():
    """Default block size of the chunked read in hash_file_content (read from the live signature)."""
    try:
        import inspect

        from rattr.models.util.hash import hash_file_content

        b = inspect.signature(hash_file_content).parameters["blocksize"].default
        return b if isinstance(b, int) and 0 < b <= 1 << 24 else 1 << 20
    except Exception:
        return 1 << 20


BLOCK = _block_size()
_LINE = "# padding line {:07d} " + "." * 56 + "\n"
# more than two read blocks of comment lines: the code (and every edit) lies after the 2nd block boundary
PAD = "".join(_LINE.format(i) for i in range((2 * BLOCK + 300_000) // len(_LINE.format(0)) + 1))
# big-file variants: identical padding, the small variants' code at the very END of the file
BIG = {"target": (4, 5), "direct": (4, 5), "trans": (3, 4)}
TARGET += [(PAD + TARGET[0][0], ["direct"]), (PAD + TARGET[2][0], ["direct"])]
DIRECT += [(PAD + DIRECT[0][0], ["trans"]), (PAD + DIRECT[1][0], ["trans"])]
TRANS += [(PAD + TRANS[0][0], []), (PAD + TRANS[1][0], [])]

# ---- the generalised family: every module class x every follow level ---------------------------
# Besides the two local modules the project has a capitalised local module (`Helpers`: the case of
# an exclusion pattern matters), two modules in a fake `site-packages` directory on PYTHONPATH
# (`is_in_pip`: followed from -f 2) and two modules whose NAMES isort classifies as stdlib but which
# are absent from this interpreter, so that the files on PYTHONPATH are the ones found
# (`is_in_stdlib`: followed at -f 3 only; never excludable). Every file is editable.
HELPERS = [
    "def make(h):\n    return h.inner\n",
    "def make(h):\n    return h.inner2\n",
    "def make(h):\n    return h.inner\n\n\ndef Make(h):\n    return h.cap\n",
]
PIPMOD = [
    "def pfn(p):\n    return p.p1\n",
    "def pfn(p):\n    return p.p2\n",
    "from pipdeep import deep\n\n\ndef pfn(p):\n    return deep(p.p1)\n",
    "from trans import leaf\n\n\ndef pfn(p):\n    return leaf(p.p1)\n",
    "import pipdeep\n\n\ndef pfn(p):\n    return pipdeep.deep(p)\n",
]
PIPDEEP = [
    "def deep(q):\n    return q.d1\n",
    "def deep(q):\n    return q.d2\n",
]
STDMOD = [
    "def sfn(s):\n    return s.s1\n",
    "def sfn(s):\n    return s.s2\n",
    "from asynchat import ac\n\n\ndef sfn(s):\n    return ac(s.s1)\n",
]
STDDEEP = [
    "def ac(t):\n    return t.t1\n",
    "def ac(t):\n    return t.t2\n",
]
_T_ALL = ("from direct import helper\nfrom pipmod import pfn\nfrom smtpd import sfn\nfrom Helpers import make\n\n\n"
          "def top(a):\n    a.x = 1\n    return helper(a) + pfn(a.p) + sfn(a.s) + make(a.h)\n\n\n"
          "def Top(b):\n    return b.cap\n")
N_OLD_TARGET = len(TARGET)
TARGET += [
    (_T_ALL, ["direct", "pipmod", "smtpd", "Helpers"]),                                             # 6
    ("from pipmod import pfn\n\n\ndef top(a):\n    return pfn(a.only)\n", ["pipmod"]),              # 7
    ("import pipmod\nimport smtpd\nimport Helpers\n\n\ndef top(a):\n    a.x = 1\n"
     "    return pipmod.pfn(a.p) + smtpd.sfn(a.s) + Helpers.make(a.h)\n", ["pipmod", "smtpd", "Helpers"]),  # 8
    ("from direct import helper\nfrom smtpd import sfn\n\n\ndef top(a):\n    return helper(a) + sfn(a)\n\n\n"
     "def leaf(z):\n    return z.own\n", ["direct", "smtpd"]),                                      # 9
]
DIRECT += [
    ("from trans import leaf\nfrom pipdeep import deep\n\n\ndef helper(b):\n    b.y\n    return leaf(b) + deep(b.d)\n",
     ["trans", "pipdeep"]),                                                                        # 6: local -> pip
    ("from nosuch import ghost\n\n\ndef helper(b):\n    return ghost(b.g)\n", ["nosuch"]),          # 7: unresolvable
    ("from asynchat import ac\n\n\ndef helper(b):\n    return ac(b.via_std)\n",
     ["asynchat"]),                                                                                # 8: local -> stdlib
]
TRANS += [("def leaf(c):\n    return c.z\n\n\ndef Leaf(c):\n    return c.capital\n", [])]            # 5

ROLES = ["target", "direct", "trans", "helpers", "pipmod", "pipdeep", "stdmod", "stddeep"]
SP_DIR, STD_DIR = "_sp/site-packages", "_std"
FILES = {"target": ("target.py", TARGET), "direct": ("direct.py", DIRECT), "trans": ("trans.py", TRANS),
         "helpers": ("Helpers.py", [(x, None) for x in HELPERS]),
         "pipmod": (SP_DIR + "/pipmod.py", [(x, None) for x in PIPMOD]),
         "pipdeep": (SP_DIR + "/pipdeep.py", [(x, None) for x in PIPDEEP]),
         "stdmod": (STD_DIR + "/smtpd.py", [(x, None) for x in STDMOD]),
         "stddeep": (STD_DIR + "/asynchat.py", [(x, None) for x in STDDEEP])}
MODNAME = {"direct": "direct", "trans": "trans", "helpers": "Helpers", "pipmod": "pipmod", "pipdeep": "pipdeep",
           "stdmod": "smtpd", "stddeep": "asynchat"}
ROLE_OF_MOD = {v: k for k, v in MODNAME.items()}
CLASS = {"target": "target", "direct": "local", "trans": "local", "helpers": "local", "pipmod": "pip", "pipdeep": "pip",
         "stdmod": "stdlib", "stddeep": "stdlib"}
EDIT_OPS = {"editTarget": "target", "editDirect": "direct", "editTransitive": "trans"}
STATE0 = {r: 0 for r in ROLES}


def src_of(role, i):
    return FILES[role][1][i][0]


_SRC_MD5 = {}


def src_md5(role, i):
    if (role, i) not in _SRC_MD5:
        _SRC_MD5[(role, i)] = md5(src_of(role, i))
    return _SRC_MD5[(role, i)]


# hashed = (follow level, excluded imports, excluded names); other = un-hashed options.
# `via`: how the hashed options reach rattr — short / long command-line flags, or pyproject.toml.
def _opt(follow=1, F=(), x=(), other=(), via="short", legacy_args=None):
    F, x, other = list(F), list(x), list(other)
    if via == "toml":
        args = []
        toml = "[tool.rattr]\nfollow-imports = %d\n" % follow
        if F:
            toml += "exclude-imports = [%s]\n" % ", ".join(json.dumps(p) for p in F)
        if x:
            toml += "exclude = [%s]\n" % ", ".join(json.dumps(p) for p in x)
    else:
        f_, F_, x_ = ("-f", "-F", "-x") if via == "short" else ("--follow-imports", "--exclude-import", "--exclude")
        args = ([] if (follow == 1 and via == "short") else [f_, str(follow)])
        for p_ in F:
            args += [F_, p_]
        for p_ in x:
            args += [x_, p_]
        toml = ""
    if legacy_args is not None:
        args = list(legacy_args)
    return {"args": args + other, "follow": follow, "F": F, "x": x, "other": " ".join(other), "via": via, "toml": toml}


OPTIONS = [
    _opt(),
    _opt(follow=0),
    _opt(F=["trans"]),
    _opt(x=["leaf"]),
    _opt(other=["-H"]),
    _opt(other=["--threshold", "1"]),
    _opt(F=["direct"]),
    _opt(follow=2),
    # exclusion patterns that match the dotted name of an imported MEMBER (trans.leaf, direct.helper)
    # but no module: nothing is excluded, every module is still followed and must be recorded
    _opt(F=[r".*\.leaf"]),
    _opt(F=[r"direct\.helper"]),
    _opt(F=[r".*\.[hl]\w+", r".*\._\w+"]),
]
N_OLD_OPTIONS = len(OPTIONS)

# ---- near-collisions of the hashed options: groups of option sets that a sloppy key could conflate.
# Within a group the from-scratch oracle decides which changes matter (state: target 6, trans 5).
F_GROUPS = {
    "case": [["helpers"], ["Helpers"], ["HELPERS"]],
    "case2": [["Direct"], ["direct"]],
    "case-pip": [["PIPMOD"], ["pipmod"], ["PipMod"]],
    "case-class": [[r"\w+"], [r"\W+"]],
    "case-class2": [[r"[A-Z]\w+"], [r"[a-z]\w+"]],
    "order-dup": [["trans", "Helpers"], ["Helpers", "trans"], ["trans", "trans", "Helpers"], ["Helpers", "trans", "Helpers"]],
    "space": [["trans"], [" trans"], ["trans "], ["tr ans"]],
    "regex-equiv": [["trans"], ["tran[s]"], ["(trans)"], ["trans|trans"]],
    "split-join": [["trans", "direct"], ["trans|direct"], ["trans, direct"], ["trans', 'direct"], ["transdirect"]],
    "origin": [[r".*/direct\.py"], [r".*/Direct\.py"], [r".*/site-packages/.*"], [r".*/SITE-PACKAGES/.*"]],
    "stdlib-name": [["smtpd"], ["SMTPD"], [r".*/smtpd\.py"]],
    "empty": [[], [""], ["", ""]],
}
X_GROUPS = {
    "case": [["top"], ["Top"], ["TOP"]],
    "case-followed": [["leaf"], ["Leaf"]],
    "case-class": [[r"[a-z]+"], [r"[A-Z]+"]],
    "order-dup": [["leaf", "Top"], ["Top", "leaf"], ["leaf", "leaf", "Top"]],
    "space": [["leaf"], [" leaf"], ["leaf "]],
    "regex-equiv": [["leaf"], ["lea[f]"], ["(leaf)"]],
    "split-join": [["leaf", "top"], ["leaf|top"], ["leaftop"]],
}
GROUPS = {}      # (field, group name) -> list of option indices


def _add_groups():
    for field, groups in (("F", F_GROUPS), ("x", X_GROUPS)):
        for gname, members in groups.items():
            idx = []
            for k, pats in enumerate(members):
                via = ("short", "long", "toml")[k % 3] if gname in ("case", "order-dup") else "short"
                OPTIONS.append(_opt(**{field: pats}, via=via))
                idx.append(len(OPTIONS) - 1)
            GROUPS[(field, gname)] = idx
    # the same pattern moved between the two fields, and follow levels through every channel
    OPTIONS.append(_opt(F=["leaf"]))
    OPTIONS.append(_opt(x=["trans"]))
    GROUPS[("Fx", "swap")] = [3, len(OPTIONS) - 2, 2, len(OPTIONS) - 1]
    lv = []
    for follow in (0, 1, 2, 3):
        for via in ("short", "long", "toml"):
            OPTIONS.append(_opt(follow=follow, via=via))
            lv.append(len(OPTIONS) - 1)
    GROUPS[("follow", "levels")] = lv
    # exclusions combined with the higher follow levels
    for follow in (2, 3):
        at = {}
        for pats in (["pipmod"], ["Pipmod"], ["pipdeep"], ["smtpd"], [r".*/site-packages/.*"], ["Helpers"], ["helpers"]):
            OPTIONS.append(_opt(follow=follow, F=pats))
            at[pats[0]] = len(OPTIONS) - 1
        # near-collisions at the levels where the module's class IS followed
        GROUPS[("F", f"case-pip-follow{follow}")] = [at["pipmod"], at["Pipmod"], at["pipdeep"]]
        GROUPS[("F", f"case-follow{follow}")] = [at["Helpers"], at["helpers"]]
        OPTIONS.append(_opt(follow=follow, x=["pfn"]))
        OPTIONS.append(_opt(follow=follow, x=["deep"]))
        OPTIONS.append(_opt(follow=follow, other=["--threshold", "1"]))


_add_groups()
LEVEL_OPT = {f: next(i for i, o in enumerate(OPTIONS) if o["follow"] == f and not o["F"] and not o["x"]
                     and not o["other"] and o["via"] == "short") for f in (0, 1, 2, 3)}


def md5(b) -> str:
    return hashlib.md5(b if isinstance(b, bytes) else b.encode()).hexdigest()


def optkey(o) -> str:
    """The hashed options as a canonical value [interp: the patterns are a SET]."""
    return json.dumps([o["follow"], sorted(set(o["F"])), sorted(set(o["x"]))])


_STDLIB_ORIGIN = {}


def stdlib_origin(name):
    if name not in _STDLIB_ORIGIN:
        spec = importlib.util.find_spec(name)
        _STDLIB_ORIGIN[name] = spec.origin if spec else None
    return _STDLIB_ORIGIN[name]


_IS_STDLIB = {}


def is_stdlib_name(name):
    """isort's verdict, asked directly (trusted classifier; not through rattr)."""
    if name not in _IS_STDLIB:
        from isort import sections
        from isort.api import place_module

        _IS_STDLIB[name] = place_module(name) == sections.STDLIB
    return _IS_STDLIB[name]


# modules outside the project that variants import: name -> (origin, readable as source)
EXTERNAL = {"math": (stdlib_origin("math"), False), "sys": ("built-in", False)}


def scan_imports(src):
    """My own reading of the `Import` symbols of a file's root context: [(module named in the
    statement, module the symbol belongs to | None)] in order of appearance (plain `import M` and
    `from M import a, b` at module level; no packages in this family, so the module is `M` itself)."""
    import ast as _ast

    out = []
    for node in _ast.parse(src).body:
        if isinstance(node, _ast.Import):
            for a in node.names:
                out.append((a.name, a.name if (a.name in ROLE_OF_MOD or a.name in EXTERNAL) else None))
        elif isinstance(node, _ast.ImportFrom) and node.level == 0:
            for _ in node.names:
                out.append((node.module, node.module if (node.module in ROLE_OF_MOD or node.module in EXTERNAL) else None))
    return out


_SCAN = {}


def imports_of(role, i):
    if (role, i) not in _SCAN:
        _SCAN[(role, i)] = scan_imports(src_of(role, i))
    return _SCAN[(role, i)]


def origin_rel(mod):
    """Origin of a module name: project-relative for the family's files."""
    if mod in ROLE_OF_MOD:
        return FILES[ROLE_OF_MOD[mod]][0]
    return EXTERNAL[mod][0]


def permanent_patterns():
    from rattr.config._types import Config as _C

    pats = set(getattr(_C, "MODULE_BLACKLIST_PATTERNS", ()) or ())
    return sorted(pats) or ["packages?\\.rattr", "packages?\\.rattr\\..*", "rattr", "rattr\\..*"]


def excluded_mod(o, mod, d=""):
    """My own reading of is_in_import_blacklist: stdlib names are never excluded; otherwise a user or
    permanent pattern fully matches the module's origin or its name."""
    if not mod:
        return True
    if is_stdlib_name(mod):
        return False
    texts = [mod]
    if mod in ROLE_OF_MOD or mod in EXTERNAL:
        org = origin_rel(mod)
        texts.append(org if os.path.isabs(org) or org == "built-in" else (d + "/" + org if d else "/proj/" + org))
    return any(re.fullmatch(p, t) for p in list(o["F"]) + permanent_patterns() for t in texts)


def expected_analysis(state, d=""):
    """My own reading of parse_and_analyse_imports + make_cacheable_import_info for this family:
    (analysed module names in order, recorded origins) or None when the import stage does not complete."""
    o = OPTIONS[state["opt"]]
    follow = o["follow"]

    def cls(mod):
        if mod in ROLE_OF_MOD:
            return CLASS[ROLE_OF_MOD[mod]]
        return "stdlib" if is_stdlib_name(mod) else "local"

    contexts = [imports_of("target", state["target"])]
    for stmt, tgt in contexts[0]:
        if tgt is None and not excluded_mod(o, stmt, d):
            return None                      # fatal: unable to find module
    analysed, seen = [], set()
    queue = list(contexts[0]) if follow >= 1 else []
    while queue:
        stmt, mod = queue.pop(0)
        if mod is None:
            continue
        org = origin_rel(mod)
        if org in seen or excluded_mod(o, mod, d):
            continue
        if cls(mod) == "pip" and follow < 2:
            continue
        if cls(mod) == "stdlib" and follow < 3:
            continue
        if mod not in ROLE_OF_MOD:
            return None                      # crash: not a source file
        role = ROLE_OF_MOD[mod]
        syms = imports_of(role, state[role])
        for s2, t2 in syms:
            if t2 is None and not excluded_mod(o, s2, d):
                return None
        analysed.append(mod)
        seen.add(org)
        contexts.append(syms)
        queue += syms
    rec = set()
    for c in contexts:
        for stmt, mod in c:
            if mod is None or excluded_mod(o, mod, d):
                continue
            org = origin_rel(mod)
            if org and org != "built-in":
                rec.add(org)
    return analysed, sorted(rec)


# ------------------------------------------------------------------ history generation

def random_history(rng, maxlen):
    """Legacy family (target / direct / trans, the first options): kept as it was."""
    n = rng.randint(2, maxlen)
    ops = []
    for _ in range(n):
        r = rng.random()
        if r < 0.34:
            ops.append(["runWithCache"])
        elif r < 0.42:
            ops.append(["forceRefresh"])
        elif r < 0.56:
            ops.append(["editTarget", rng.randrange(N_OLD_TARGET)])
        elif r < 0.70:
            ops.append(["editDirect", rng.randrange(6)])
        elif r < 0.84:
            ops.append(["editTransitive", rng.randrange(5)])
        else:
            ops.append(["changeOption", rng.randrange(N_OLD_OPTIONS)])
    return close(ops)


SMALL = {"target": [0, 2, 6, 7, 8, 9], "direct": [0, 1, 2, 3, 6, 7, 8], "trans": [0, 1, 2, 5]}


def random_history2(rng, maxlen):
    """Generalised family: any file of any class is edited, any option set of OPTIONS (follow 0..3,
    the near-collision groups, every delivery channel) is switched to, in random order."""
    n = rng.randint(3, maxlen)
    ops = [["edit", "target", rng.choice([6, 6, 8, 9])], ["changeOption", rng.randrange(len(OPTIONS))]]
    for _ in range(n):
        r = rng.random()
        if r < 0.36:
            ops.append(["runWithCache"])
        elif r < 0.40:
            ops.append(["forceRefresh"])
        elif r < 0.75:
            role = rng.choice(ROLES)
            ops.append(["edit", role, rng.choice(SMALL.get(role) or list(range(len(FILES[role][1]))))])
        elif r < 0.87:
            ops.append(["changeOption", rng.randrange(len(OPTIONS))])
        else:
            # a near-collision: another member of a group the current... any group
            g = rng.choice(sorted(GROUPS))
            ops.append(["changeOption", rng.choice(GROUPS[g])])
            ops.append(["runWithCache"])
            ops.append(["changeOption", rng.choice(GROUPS[g])])
    return close(ops)


def class_level_histories():
    """follow level 0..3 x module class (local / pip / stdlib-named, imported directly or
    transitively, by `from` and by `import`) x 'edit the module between two runs sharing a cache'."""
    out = []
    for tgt in (6, 8):
        for lvl in (0, 1, 2, 3):
            if tgt == 8 and lvl < 2:
                continue                     # the `import M` form: the levels that follow pip / stdlib
            h = [["edit", "target", tgt], ["edit", "pipmod", 2], ["edit", "stdmod", 2],
                 ["changeOption", LEVEL_OPT[lvl]], ["runWithCache"], ["runWithCache"]]
            for role, v in (("pipmod", 4), ("stdmod", 1), ("helpers", 1), ("pipdeep", 1), ("stddeep", 1),
                            ("direct", 1), ("trans", 1), ("pipmod", 2), ("stdmod", 2)):
                h += [["edit", role, v], ["runWithCache"]]
            out.append(h)
    # the dependency reaches another class: local -> pip, local -> stdlib, pip -> local
    for lvl in (1, 2, 3):
        out.append([["edit", "target", 9], ["edit", "direct", 6], ["changeOption", LEVEL_OPT[lvl]], ["runWithCache"],
                    ["edit", "pipdeep", 1], ["runWithCache"], ["edit", "direct", 8], ["runWithCache"],
                    ["edit", "stddeep", 1], ["runWithCache"], ["edit", "target", 7], ["edit", "pipmod", 3],
                    ["runWithCache"], ["edit", "trans", 1], ["runWithCache"], ["edit", "trans", 0], ["runWithCache"]])
    # level changes between runs, every delivery channel, with an edit of a module whose class the
    # new level starts / stops following
    lv = GROUPS[("follow", "levels")]
    seq = [lv[3 * 2 + 0], lv[3 * 1 + 1], lv[3 * 2 + 2], lv[3 * 3 + 1], lv[3 * 2 + 1], lv[3 * 0 + 2], lv[3 * 3 + 2],
           lv[3 * 3 + 0]]
    h = [["edit", "target", 6]]
    for k, oi in enumerate(seq):
        h += [["changeOption", oi], ["runWithCache"], ["edit", ("pipmod", "stdmod", "helpers")[k % 3], k % 2],
              ["runWithCache"]]
    out.append(h)
    # excluded modules of each class at the levels that would follow them
    for oi, o in enumerate(OPTIONS):
        if o["follow"] in (2, 3) and (o["F"] or o["x"]) and o["via"] == "short":
            h = [["edit", "target", 6], ["edit", "pipmod", 2], ["changeOption", oi], ["runWithCache"],
                 ["edit", "pipmod", 4], ["runWithCache"], ["edit", "pipdeep", 1], ["runWithCache"],
                 ["edit", "stdmod", 1], ["runWithCache"]]
            if any("elpers" in p_ for p_ in o["F"]):
                h += [["edit", "helpers", 1], ["runWithCache"]]
            out.append(h)
    # an unresolvable import: fatal unless excluded; the exclusion is part of the key
    out.append([["edit", "direct", 7], ["runWithCache"], ["changeOption", 1], ["runWithCache"], ["changeOption", 0],
                ["runWithCache"], ["edit", "direct", 0], ["runWithCache"], ["runWithCache"]])
    return out


def option_pair_histories():
    """Two runs sharing a cache whose hashed options differ only by a near-collision (letter case,
    order, repetition, white space, an equivalent regex, the same text in the other field), in both
    directions, in a state where the difference can matter for a module / function name."""
    out = []
    base = [["edit", "target", 6], ["edit", "trans", 5], ["edit", "helpers", 2], ["edit", "pipmod", 2]]
    for key in sorted(GROUPS):
        idx = GROUPS[key]
        if key == ("follow", "levels"):
            continue
        # a tour through the group and back: every adjacent pair in both directions
        tour = idx + idx[::-1][1:]
        if len(idx) > 2:
            tour += [idx[0], idx[2], idx[0]]
        h = list(base)
        for oi in tour:
            h += [["changeOption", oi], ["runWithCache"]]
        out.append(h)
    return out


def close(ops):
    """Drop trailing ops nobody observes, end with a run."""
    ops = [list(o) for o in ops]
    if not ops or ops[-1][0] not in ("runWithCache", "forceRefresh"):
        ops.append(["runWithCache"])
    return ops


CORPUS = [
    # the strictness-bypass history (known finding)
    [["editTarget", 3], ["runWithCache"], ["changeOption", 5], ["runWithCache"]],
    # DESIGN §5: edit of a transitive import, option change, repeat
    [["runWithCache"], ["runWithCache"], ["editTransitive", 1], ["runWithCache"], ["runWithCache"],
     ["changeOption", 3], ["runWithCache"], ["runWithCache"], ["changeOption", 0], ["runWithCache"]],
    # the dependency set shrinks, then the dropped module changes, then it is needed again
    [["runWithCache"], ["editDirect", 2], ["runWithCache"], ["editTransitive", 1], ["runWithCache"],
     ["editDirect", 0], ["runWithCache"], ["editTransitive", 0], ["runWithCache"]],
    # revert to earlier content (hash equal again), forced refresh, failed run keeps the old cache
    [["runWithCache"], ["editTarget", 2], ["editTarget", 0], ["runWithCache"], ["forceRefresh"],
     ["changeOption", 5], ["editTarget", 3], ["runWithCache"], ["forceRefresh"], ["changeOption", 0],
     ["runWithCache"]],
    # not followed / excluded modules are not dependencies
    [["changeOption", 2], ["runWithCache"], ["editTransitive", 1], ["runWithCache"], ["changeOption", 6],
     ["runWithCache"], ["editDirect", 1], ["runWithCache"], ["changeOption", 1], ["runWithCache"],
     ["editTransitive", 2], ["runWithCache"], ["editDirect", 3], ["runWithCache"]],
    # big files (> 2 read blocks of padding): edits confined to the END of the transitive import,
    # of the direct import and of the target must each be noticed
    [["editTransitive", 3], ["runWithCache"], ["runWithCache"], ["editTransitive", 4], ["runWithCache"],
     ["editDirect", 4], ["runWithCache"], ["editDirect", 5], ["runWithCache"], ["runWithCache"]],
    [["editTarget", 4], ["runWithCache"], ["editTarget", 5], ["runWithCache"], ["editTarget", 4],
     ["runWithCache"], ["runWithCache"]],
    # -F patterns matching only member names: the followed modules stay dependencies
    [["changeOption", 8], ["runWithCache"], ["editTransitive", 1], ["runWithCache"], ["runWithCache"],
     ["changeOption", 9], ["runWithCache"], ["editDirect", 1], ["runWithCache"], ["editTransitive", 0],
     ["runWithCache"]],
    [["changeOption", 10], ["runWithCache"], ["editDirect", 1], ["runWithCache"], ["editTransitive", 2],
     ["runWithCache"], ["editTransitive", 1], ["runWithCache"]],
]

# exhaustive alphabet: parameterless toggles
TOGGLE = {"editTarget": [0, 2], "editDirect": [0, 2], "editTransitive": [0, 1], "changeOption": [0, 3]}


def exhaustive_histories(maxlen):
    alpha = ["editTarget", "editDirect", "editTransitive", "changeOption", "runWithCache", "forceRefresh"]
    seen, out = set(), []
    for n in range(1, maxlen + 1):
        for seq in itertools.product(alpha, repeat=n):
            st = {"editTarget": 0, "editDirect": 0, "editTransitive": 0, "changeOption": 0}
            ops = []
            for a in seq:
                if a in st:
                    st[a] = 1 - st[a]
                    ops.append([a, TOGGLE[a][st[a]]])
                else:
                    ops.append([a])
            ops = close(ops)
            k = json.dumps(ops)
            if k not in seen:
                seen.add(k)
                out.append(ops)
    return out


# ------------------------------------------------------------------ implementation side (CLI)

def cli(args, cwd, timeout=120):
    env = dict(os.environ)
    env["PYTHONHASHSEED"] = "0"
    # the fake site-packages / stdlib directories of the project (if it has them) go on the search
    # path AFTER whatever PYTHONPATH selects the rattr under test
    extra = [str(Path(cwd) / SP_DIR), str(Path(cwd) / STD_DIR)]
    extra = [e for e in extra if os.path.isdir(e)]
    if extra:
        env["PYTHONPATH"] = os.pathsep.join(([env["PYTHONPATH"]] if env.get("PYTHONPATH") else []) + extra)
    p = subprocess.run([sys.executable, "-m", "rattr", *args], cwd=cwd, env=env, capture_output=True,
                       timeout=timeout)
    err = p.stderr.decode("utf-8", "replace")
    tb = "Traceback (most recent call last)" in err
    exc = None
    if tb:
        if "ClassValidationError" in err:
            exc = "ClassValidationError"
        else:
            for line in reversed(err.strip().splitlines()):
                m = re.match(r"^[\s|+]*([A-Za-z_][\w.]*)(:|$)", line)
                if m:
                    exc = m.group(1).split(".")[-1]
                    break
    return {"exit": p.returncode, "out": p.stdout.decode("utf-8", "replace"), "tb": tb, "exc": exc,
            "hit": HITLINE in err, "err_tail": err.strip().splitlines()[-1][-200:] if err.strip() else ""}


def stat_of(p: Path):
    try:
        s = p.stat()
        return [s.st_mtime_ns, s.st_size, s.st_ino]
    except FileNotFoundError:
        return None


def read_or_none(p: Path):
    try:
        return p.read_bytes().decode("utf-8", "replace")
    except FileNotFoundError:
        return None


def make_project(prefix="c19_"):
    d = Path(tempfile.mkdtemp(prefix=prefix, dir=TMPROOT))
    (d / "pyproject.toml").write_text("")
    return d


def write_role(d, role, i):
    f = d / FILES[role][0]
    f.parent.mkdir(parents=True, exist_ok=True)
    f.write_text(src_of(role, i))


def pattern_change_kind(a, b):
    """Syntactic class of the difference between two pattern lists."""
    if list(a) == list(b):
        return None
    if set(a) == set(b):
        return "order-or-repetition"
    if sorted(set(x.lower() for x in a)) == sorted(set(x.lower() for x in b)):
        return "case"
    if sorted(set("".join(x.split()) for x in a)) == sorted(set("".join(x.split()) for x in b)):
        return "white-space"
    return "patterns"


def changes_since(written, state):
    """What differs syntactically between the state the cache on disk was written in and now."""
    if written is None:
        return ["no-cache-written"]
    # only files that are dependencies by my own reading of the follower, then or now (an edit of a
    # file nobody reads is not a change)
    deps = {"target"}
    for st in (written, state):
        exp = expected_analysis(st)
        deps |= set(ROLES) if exp is None else {ROLE_OF_MOD[m] for m in exp[0]}
    out = [f"edit:{r}" for r in ROLES if written[r] != state[r] and r in deps]
    a, b = OPTIONS[written["opt"]], OPTIONS[state["opt"]]
    if a["follow"] != b["follow"]:
        out.append(f"opt:follow:{a['follow']}->{b['follow']}")
    for fld in ("F", "x"):
        k = pattern_change_kind(a[fld], b[fld])
        if k:
            out.append(f"opt:{fld}:{k}")
    if a["other"] != b["other"]:
        out.append("opt:unhashed")
    return out


def normalise(op):
    """Legacy op names -> the general form."""
    if op[0] in EDIT_OPS:
        return ["edit", EDIT_OPS[op[0]], op[1]]
    return list(op)


def run_history(ops, init_disk=None):
    """Execute one history against the real CLI. Returns one record per op."""
    d = make_project("c19h_")
    try:
        state = dict(STATE0, opt=0)
        for role in ROLES:
            write_role(d, role, 0)
        cache = d / "cache.json"
        if init_disk is not None:
            cache.write_bytes(init_disk)
        recs = []
        written = None
        # the from-scratch reference run is repeated for every run of a legacy history (which also
        # checks that it is deterministic) and made once per distinct state in the generalised family
        legacy = all(o[0] != "edit" and (o[0] != "changeOption" or o[1] < N_OLD_OPTIONS) for o in ops)
        fresh_memo = {}
        for op0 in ops:
            op = normalise(op0)
            name = op[0]
            if name == "edit":
                state[op[1]] = op[2]
                write_role(d, op[1], op[2])
                recs.append({"op": op0})
            elif name == "changeOption":
                state["opt"] = op[1]
                (d / "pyproject.toml").write_text(OPTIONS[op[1]]["toml"])
                recs.append({"op": op0})
            else:
                o = OPTIONS[state["opt"]]
                base = ["-w", "all", *o["args"]]
                fkey = json.dumps(state, sort_keys=True)
                if legacy or fkey not in fresh_memo:
                    fresh_memo[fkey] = cli([*base, "-o", "cacheable", "target.py"], d)
                fresh = fresh_memo[fkey]
                before, st_before = read_or_none(cache), stat_of(cache)
                extra = ["-r"] if name == "forceRefresh" else []
                r = cli([*base, *extra, "--cache-file", "cache.json", "-o", "silent", "target.py"], d)
                after, st_after = read_or_none(cache), stat_of(cache)
                rec = {"op": op0, "state": dict(state), "fresh": fresh, "run": r, "before": before,
                       "after": after, "rewritten": st_before != st_after, "dir": str(d),
                       "since_write": changes_since(written, state)}
                if st_before != st_after and after is not None:
                    written = dict(state)
                elif after is None:
                    written = None
                recs.append(rec)
        return recs
    finally:
        shutil.rmtree(d, ignore_errors=True)


# ------------------------------------------------------------------ oracle for histories

def diff_fields(a_text, b_text):
    try:
        a, b = json.loads(a_text), json.loads(b_text)
        ks = sorted(k for k in set(a) | set(b) if a.get(k) != b.get(k))
        return "+".join(ks) or "bytes-only"
    except Exception:
        return "unparseable"


def strip_nl(s):
    return s[:-1] if s.endswith("\n") else s


def judge_run(rec):
    """Property oracle on one run record. Returns list of (signature, detail)."""
    out = []
    r, f, name = rec["run"], rec["fresh"], rec["op"][0]
    if f["tb"]:
        return [("__skip__", "from-scratch run crashed: " + str(f["exc"]))]
    fresh_ok = f["exit"] == 0
    fdoc = strip_nl(f["out"]) if fresh_ok else None
    if r["tb"]:
        return [(f"run-crash:{r['exc']}", r["err_tail"])]
    if r["hit"]:
        if name == "forceRefresh":
            out.append(("force-refresh-hit", "-r answered up-to-date"))
        if r["exit"] != 0:
            out.append(("other:hit-with-nonzero-exit", str(r["exit"])))
        if rec["rewritten"] or rec["after"] != rec["before"]:
            out.append(("other:hit-but-cache-file-modified", ""))
        # WHAT changed since the cache on disk was written (syntactic; a hit with nothing changed but
        # an un-hashed option is the known strictness finding, anything else is a different bug)
        since = rec.get("since_write") or []
        ctx = "" if set(since) <= {"opt:unhashed"} else \
            ";changed=" + ",".join(since) + ";follow=" + str(OPTIONS[rec["state"]["opt"]]["follow"])
        if not fresh_ok:
            out.append(("hit-but-fresh-run-fatal" + ctx, f["err_tail"]))
        elif fdoc != rec["before"]:
            out.append(("hit-but-fresh-run-differs:" + diff_fields(fdoc, rec["before"] or "null") + ctx, ""))
    else:
        if r["exit"] == 0:
            if not fresh_ok:
                out.append(("other:cached-run-ok-but-fresh-run-fatal", f["err_tail"]))
            elif rec["after"] != fdoc:
                out.append(("miss-wrote-non-fresh-cache:" + diff_fields(fdoc, rec["after"] or "null"), ""))
            if not rec["rewritten"]:
                out.append(("other:miss-but-cache-file-not-written", ""))
        else:
            if fresh_ok:
                out.append(("other:cached-run-fatal-but-fresh-run-ok", r["err_tail"]))
    return out


def impl_out(rec):
    r = rec["run"]
    if r["tb"]:
        return "crash:" + str(r["exc"])
    if r["hit"]:
        return "hit"
    if r["exit"] == 0:
        return "missWritten"
    return "missFatal"


# ------------------------------------------------------------------ model side for histories

def norm_path(p, d):
    return p[len(d) + 1:] if p.startswith(d + "/") else p


def results_digest(doc):
    return common.digest(doc.get("results"))


_FACTS = {}


def live_facts():
    """Constants of the running rattr the model is parameterised by."""
    if not _FACTS:
        from rattr.config._types import Config as _C
        from rattr.models.symbol._util import PYTHON_BUILTINS_LOCATION

        _FACTS.update(litPrefix=getattr(_C, "LITERAL_VALUE_PREFIX", "@"), builtins=PYTHON_BUILTINS_LOCATION,
                      permanent=permanent_patterns())
    return _FACTS


def all_patterns():
    pats = set(live_facts()["permanent"])
    for o in OPTIONS:
        pats.update(o["F"])
    return sorted(pats)


_RX = {}


def fullmatch(p, t):
    if p not in _RX:
        _RX[p] = re.compile(p)
    return _RX[p].fullmatch(t) is not None


def static_payload(d):
    """The `Static` record of the Lean model for the project at `d`: the module table of my own layout,
    isort's verdicts, `re.fullmatch` verdicts (patterns x names / origins; origins are matched by their
    real absolute path and keyed by the project-relative one), my scan of every variant's imports."""
    facts = live_facts()
    names = list(ROLE_OF_MOD) + list(EXTERNAL) + ["nosuch"]
    mods = [{"name": m, "origin": FILES[r][0], "readable": True} for m, r in ROLE_OF_MOD.items()]
    mods += [{"name": m, "origin": org, "readable": rd} for m, (org, rd) in EXTERNAL.items() if org]
    texts = [(n, n) for n in names]
    for m in mods:
        o = m["origin"]
        texts.append((o, o if (os.path.isabs(o) or o == "built-in") else d + "/" + o))
    matches = [[p_, key] for p_ in all_patterns() for key, real in texts if fullmatch(p_, real)]
    rows, total = [], 0
    for role in ROLES:
        for i in range(len(FILES[role][1])):
            syms = [[a_, b_] for a_, b_ in imports_of(role, i)]
            total += len(syms)
            rows.append({"origin": FILES[role][0], "content": src_md5(role, i), "syms": syms})
    return {"mods": mods, "stdlib": [n for n in names if is_stdlib_name(n)], "matches": matches,
            "permanent": facts["permanent"], "builtins": facts["builtins"], "imports": rows, "fuel": total + 1,
            "litPrefix": facts["litPrefix"]}


def raw_opts(o):
    return {"follow": o["follow"], "F": list(o["F"]), "x": list(o["x"])}


def model_key(st):
    o = OPTIONS[st["opt"]]
    return [src_md5(r, st[r]) for r in ROLES] + [optkey(o), o["other"]]


def history_payload(ops, recs, version):
    d = next((r["dir"] for r in recs if "dir" in r), "/nonexistent")
    files = [[FILES[r][0], src_md5(r, 0)] for r in ROLES]
    for m, (org, _) in EXTERNAL.items():
        if org and os.path.isfile(org):
            files.append([org, md5(Path(org).read_bytes())])
    mops, rows, seen = [], [], {}
    for op0, rec in zip(ops, recs):
        op = normalise(op0)
        name = op[0]
        if name == "edit":
            mops.append({"op": "edit", "p": FILES[op[1]][0], "c": src_md5(op[1], op[2])})
        elif name == "changeOption":
            o = OPTIONS[op[1]]
            mops.append({"op": "setOptions", "o": raw_opts(o), "x": o["other"]})
        else:
            mops.append({"op": name})
            st = rec["state"]
            key = model_key(st)
            f = rec["fresh"]
            fails = f["exit"] != 0
            fresh = "<fatal>"
            if not fails:
                try:
                    fresh = results_digest(json.loads(f["out"]))
                except Exception:
                    fresh = "<unparseable>"
            # `fails` of the table = fatal for a reason OTHER than the import stage (which the model
            # decides itself): badness over the threshold
            exp = expected_analysis(st, d)
            row = {"key": key, "contents": key[:len(ROLES)], "opts": raw_opts(OPTIONS[st["opt"]]),
                   "other": OPTIONS[st["opt"]]["other"], "fails": fails and exp is not None, "fresh": fresh}
            k = json.dumps(key)
            if k in seen:
                if seen[k] != row:
                    row["__inconsistent__"] = seen[k]
            else:
                seen[k] = row
                rows.append(row)
    return {"static": static_payload(d),
            "init": {"target": "target.py", "files": files, "emptyHash": md5(b""), "opts": raw_opts(OPTIONS[0]),
                     "other": "", "version": "V", "plugins": "P"},
            "disk": "absent", "analysis": rows, "keyPaths": [FILES[r][0] for r in ROLES], "ops": mops}


def model_optkey(k):
    return json.dumps([k["follow"], k["F"], k["x"]]) if isinstance(k, dict) else k


def real_disk_projection(text, d, version, argmap, plugins_seen):
    if text is None:
        return "absent"
    try:
        doc = json.loads(text)
    except Exception:
        return "malformed"
    plugins_seen.add(doc.get("plugins_hash"))
    return {
        "version": "V" if doc.get("version") == version else doc.get("version"),
        "args": argmap.get(doc.get("arguments_hash"), doc.get("arguments_hash")),
        "plugins": "P",
        "filepath": doc.get("filepath"),
        "filehash": doc.get("filehash"),
        "imports": sorted([norm_path(i["filepath"], d), i["filehash"]] for i in doc.get("imports", [])),
        "results": results_digest(doc),
    }


# ------------------------------------------------------------------ corruption stream

REPS = [None, 1, True, 1.5, -3, "s", "", [], [1], ["x"], {}, {"k": 1}, {"k": "v"}]
SETKEYS = ("gets", "sets", "dels", "calls")


def kind(v):
    if v is None:
        return "null"
    if isinstance(v, bool):
        return "bool"
    if isinstance(v, (int, float)):
        return "number"
    if isinstance(v, str):
        return "string"
    if isinstance(v, list):
        return "list"
    return "dict"


def tag(v):
    if v is None:
        return {"t": "null"}
    if isinstance(v, bool):
        return {"t": "bool", "v": v}
    if isinstance(v, (int, float)):
        return {"t": "num", "r": str(v)}
    if isinstance(v, str):
        return {"t": "str", "v": v}
    if isinstance(v, list):
        return {"t": "arr", "v": [tag(x) for x in v]}
    return {"t": "obj", "v": [[k, tag(x)] for k, x in v.items()]}


def paths(v, p=()):
    yield p
    if isinstance(v, dict):
        for k in v:
            yield from paths(v[k], p + (k,))
    elif isinstance(v, list):
        for i, x in enumerate(v):
            yield from paths(x, p + (i,))


def getp(d, p):
    for k in p:
        d = d[k]
    return d


def setp(d, p, r):
    if not p:
        return copy.deepcopy(r)
    d = copy.deepcopy(d)
    c = d
    for k in p[:-1]:
        c = c[k]
    c[p[-1]] = copy.deepcopy(r)
    return d


def delp(d, p):
    d = copy.deepcopy(d)
    c = d
    for k in p[:-1]:
        c = c[k]
    del c[p[-1]]
    return d


def pathclass(p):
    out = ""
    for i, k in enumerate(p):
        if isinstance(k, int):
            out += "[]"
        else:
            if i == 1 and p[0] == "results":
                k = "*"
            elif i == 2 and p[0] == "results" and k in SETKEYS:
                k = "<set>"
            out += ("." if out else "") + k
    return out


FIELD_NAMES = ["version", "arguments_hash", "plugins_hash", "filepath", "filehash", "imports", "results"]


def top_shape(v):
    k = kind(v)
    if k in ("null", "number", "bool"):
        return "top-level-scalar"
    if k == "string":
        return "top-level-string-naming-a-field" if any(f in v for f in FIELD_NAMES) else "top-level-string"
    if k == "list":
        return "top-level-list-naming-a-field" if any(f in v for f in FIELD_NAMES) else "top-level-list"
    return "top-level-object"


def classify_bytes(b):
    """Independent (CPython json) reading of the file content, for the model's `FileContent`."""
    try:
        t = b.decode("utf-8")
    except UnicodeDecodeError:
        return {"k": "notUtf8"}
    try:
        v = json.loads(t)
    except (ValueError, RecursionError):
        # JSONDecodeError, or json.loads refusing a value it could lex (int digit limit, nesting
        # depth): for the gate all of these are "loads raised"
        return {"k": "notJson"}
    return {"k": "json", "v": tag(v)}


# paths an import entry may be made to name: not files, not stat-able, or files that cannot be read
EXOTIC_PATHS = ["a\x00b", "x" * 5000, ".", "/", "/dev/null", "/proc/self/mem", "no/such/file", "\ud800"]


def path_facts(paths_):
    """Independent reading of what hash_file_content will meet: (files [[p, md5]], unreadable [p])."""
    files, unreadable = [], []
    for p in paths_:
        try:
            isf = os.path.isfile(p)
        except Exception:
            isf = False
        if not isf:
            continue
        try:
            with open(p, "rb") as f:
                files.append([p, md5(f.read(1 << 22))])
        except OSError:
            files.append([p, ""])
            unreadable.append(p)
    return files, unreadable


def corruption_cases(good_bytes, tier, rng):
    """Yield dict(label, shape, bytes, expect) ; expect in {'stale', 'any-but-crash'}."""
    good = json.loads(good_bytes)
    n = len(good_bytes)
    for i in range(n):
        yield {"label": f"truncate@{i}", "shape": "empty-file" if i == 0 else "truncated",
               "bytes": good_bytes[:i], "expect": "stale"}
    seen_cls = {}
    for p in paths(good):
        if not p:
            continue
        orig = getp(good, p)
        cls = pathclass(p)
        # every node in thorough; in quick one node per path class (plus all top-level fields)
        if tier == "quick" and len(p) > 1 and seen_cls.get(cls):
            continue
        seen_cls[cls] = True
        for r in REPS:
            if r == orig:
                continue
            typed = kind(r) != kind(orig) and not (kind(orig) == "string" and False)
            yield {"label": f"{'/'.join(map(str, p))}<-{json.dumps(r)}", "shape": "field:" + cls,
                   "bytes": json.dumps(setp(good, p, r), indent=4).encode(),
                   "expect": "stale" if typed else "any-but-crash", "kind": kind(r)}
        # a missing key is a change of the enclosing object
        if cls in ("imports[].filepath", "filepath") and (len(p) == 1 or p[1] == 0):
            for r in EXOTIC_PATHS:
                yield {"label": f"{'/'.join(map(str, p))}<-{json.dumps(r)[:40]}", "shape": "field:" + cls,
                       "bytes": json.dumps(setp(good, p, r), indent=4).encode(), "expect": "any-but-crash",
                       "kind": "string"}
        yield {"label": f"delete:{'/'.join(map(str, p))}", "shape": "field:" + pathclass(p[:-1]) if len(p) > 1 else "top-level-object",
               "bytes": json.dumps(delp(good, p), indent=4).encode(), "expect": "any-but-crash"}
    tops = [None, 0, 1, -1, 1.5, True, False, "s", "", "version", "xfilepathx", "results", [], [1], ["imports"],
            ["filepath", 1], [["version"]], {}, {"x": 1}, {"version": good["version"]}, float("nan"), float("inf"),
            {**good, "extra": 1},
            # nested wrong types inside otherwise minimal objects (shape named explicitly)
            ({"imports": [{"filepath": 1}]}, "field:imports[].filepath"), ({"imports": 1}, "field:imports"),
            ({"imports": ["filehash"]}, "field:imports[]"), ({"imports": [["filepath"]]}, "field:imports[]"),
            ({"results": {"f": {"gets": [], "sets": [], "dels": []}}}, "field:results.*"),
            {"results": {"f": {"gets": [], "sets": [], "dels": [], "calls": [], "more": 1}}}]
    for v in tops:
        shape = None
        if isinstance(v, tuple):
            v, shape = v
        wellformed_other = isinstance(v, dict)
        yield {"label": "top:" + json.dumps(v)[:60], "shape": shape or top_shape(v), "bytes": json.dumps(v).encode(),
               "expect": "any-but-crash" if wellformed_other else "stale"}
    raws = [(b" ", "whitespace-only"), (b"\n\n", "whitespace-only"), (b"\xff\xfe", "not-utf8"),
            (good_bytes[:40] + b"\xff" + good_bytes[40:], "not-utf8"), (b"\xef\xbb\xbf" + good_bytes, "utf8-bom"),
            (good_bytes + b"}", "trailing-garbage"), (good_bytes + good_bytes, "trailing-garbage"),
            (good_bytes.replace(b":", b"=", 1), "not-json"), (b"{'version': 'dev'}", "not-json"),
            (good_bytes[1:], "not-json"), (b"\x00" * 16, "not-json"),
            ("{\"version\": \"dév\"}".encode("latin-1"), "not-utf8"),
            (b"[" * 100000 + b"]" * 100000, "json-loads-raises"),
            (b'{"version": ' + b"9" * 5000 + b"}", "json-loads-raises")]
    for b, shape in raws:
        yield {"label": "raw:" + shape + ":" + b[:12].hex(), "shape": shape, "bytes": b, "expect": "stale"}
    if tier == "thorough":
        ps = [p for p in paths(good) if p]
        for _ in range(300):
            p1, p2 = rng.sample(ps, 2)
            try:
                dd = setp(setp(good, p1, rng.choice(REPS)), p2, rng.choice(REPS))
            except (KeyError, IndexError, TypeError):
                continue
            yield {"label": f"double:{p1}:{p2}", "shape": "double-mutation", "bytes": json.dumps(dd).encode(),
                   "expect": "correspondence-only"}


def make_cache_project(extra_functions=0):
    d = make_project("c19c_")
    tsrc = TARGET[2][0] + "".join(f"\n\ndef fn{i}(p{i}):\n    p{i}.attr{i} = p{i}.other{i}\n    return helper(p{i})\n"
                                  for i in range(extra_functions))
    (d / "target.py").write_text(tsrc)
    (d / "direct.py").write_text(DIRECT[0][0])
    (d / "trans.py").write_text(TRANS[0][0])
    r = cli(["-w", "all", "--cache-file", "cache.json", "-o", "silent", "target.py"], d)
    return d, r


def gate_in_process(d, blobs):
    """Run the real gate on every blob (in-process). Returns (facts, outcomes)."""
    from rattr._version import version
    from rattr.models.results import util as ru

    outs = []
    with impl.in_dir(str(d)):
        impl.reset_config(target=Path("target.py"), cache_file=Path("c.json"))
        facts = {"version": version, "args": ru.make_arguments_hash(), "plugins": ru.make_plugins_hash()}
        for b in blobs:
            Path("c.json").write_bytes(b)
            with impl.Tap():
                o = impl.outcome_of(ru.target_cache_file_is_up_to_date, Path("target.py"), Path("c.json"))
            if o[0] == "ok":
                outs.append({"verdict": "fresh" if o[1] is True else ("stale" if o[1] is False else f"other:{o[1]!r}")})
            elif o[0] == "fatal":
                outs.append({"verdict": "fatal"})
            else:
                outs.append({"verdict": "crash", "err": o[1]})
        Path("c.json").unlink(missing_ok=True)
    return facts, outs


def corruption_stream(res, tier, rng, model):
    d, r0 = make_cache_project(extra_functions=0 if tier == "quick" else 3)
    try:
        if r0["exit"] != 0 or r0["tb"]:
            res.internal_errors.append({"what": "could not create the reference cache file", "run": r0})
            return
        good_bytes = (d / "cache.json").read_bytes()
        good = json.loads(good_bytes)
        cases = list(corruption_cases(good_bytes, tier, rng))
        facts, outs = gate_in_process(d, [good_bytes] + [c["bytes"] for c in cases])
        if outs[0] != {"verdict": "fresh"}:
            res.internal_errors.append({"what": "in-process gate does not accept the cache the CLI wrote",
                                        "outcome": outs[0]})
            return
        outs = outs[1:]
        files = [["target.py", md5((d / "target.py").read_bytes())]]
        for i in good["imports"]:
            if os.path.isfile(i["filepath"]):
                files.append([i["filepath"], md5(Path(i["filepath"]).read_bytes())])
        xfiles, unreadable = path_facts(EXOTIC_PATHS)
        files += xfiles
        res.extra["unreadable_regular_files_probed"] = unreadable
        world = {"target": "target.py", "files": files, "unreadable": unreadable, "emptyHash": md5(b""), **facts}
        mouts = model.batch([("cache_gate", {"file": classify_bytes(c["bytes"]), "world": world}) for c in cases])
        for c, io, mo in zip(cases, outs, mouts):
            res.evaluations += 1
            case = {"stream": "corruption", "label": c["label"], "shape": c["shape"], "project_dir": str(d),
                    "bytes_hex": c["bytes"].hex() if len(c["bytes"]) < 4000 else None,
                    "truncate_at": len(c["bytes"]) if c["shape"] in ("truncated", "empty-file") else None}
            res.nontrivial.add(common.digest(c["bytes"].hex()))
            res.count("corruption:" + c["shape"].split(":")[0])
            res.count("gate:" + io["verdict"] + (":" + io["err"] if "err" in io else ""))
            if c["shape"].startswith("field:") and c["expect"] == "stale":
                res.sample({"case": case, "impl": io}, cap=3)
            # correspondence
            if "__error__" in mo:
                res.disagreements.append({"case": case, "impl": io, "model": mo})
            else:
                mm = {"verdict": mo["verdict"], **({"err": mo["err"]} if "err" in mo else {})}
                if mm != io:
                    res.disagreements.append({"case": case, "impl": io, "model": mm})
            # oracle (double mutations: every constituent single mutation is judged on its own above;
            # the combination is only compared with the model, which predicts the exact outcome)
            if c["expect"] == "correspondence-only":
                continue
            if io["verdict"] in ("crash", "fatal") or io["verdict"].startswith("other"):
                sig = f"cache-gate-crash:{io.get('err', io['verdict'])}:{c['shape']}"
                res.violations.append({"signature": sig, "case": case, "impl": io})
            elif io["verdict"] == "fresh" and c["expect"] == "stale":
                res.violations.append({"signature": f"corrupt-cache-trusted:{c['shape']}", "case": case, "impl": io})
            elif io["verdict"] == "fresh":
                res.count("value-level-mutation-trusted(undetectable)")
        # a sample through the real CLI (validates the in-process worker)
        idx = [i for i, c in enumerate(cases) if c["shape"] == "truncated"]
        pick = [idx[len(idx) // 7], idx[len(idx) // 2], idx[-1]] if idx else []
        want = ["imports/0/filepath<-\"/proc/self/mem\"", "top:null", "top:{\"imports\": [{\"filepath\": 1}]}", "imports<-{}", "raw:not-utf8", "truncate@0",
                "filepath<-null", "results<-[]"]
        for w in want:
            for i, c in enumerate(cases):
                if c["label"].startswith(w):
                    pick.append(i)
                    break

        def one(i):
            dd = make_project("c19s_")
            try:
                for fn in ("target.py", "direct.py", "trans.py"):
                    shutil.copy(d / fn, dd / fn)
                # same absolute import paths are required for the gate to compare the same files:
                # rewrite the project-dir prefix inside the blob
                blob = cases[i]["bytes"].replace(str(d).encode(), str(dd).encode())
                (dd / "cache.json").write_bytes(blob)
                st = stat_of(dd / "cache.json")
                r = cli(["-w", "all", "--cache-file", "cache.json", "-o", "silent", "target.py"], dd)
                return i, r, stat_of(dd / "cache.json") != st
            finally:
                shutil.rmtree(dd, ignore_errors=True)

        with cf.ThreadPoolExecutor(max_workers=8) as ex:
            for i, r, rewritten in ex.map(one, pick):
                res.evaluations += 1
                res.count("corruption-via-cli")
                io = outs[i]
                cli_v = ("crash:" + str(r["exc"])) if r["tb"] else ("fresh" if r["hit"] else "stale")
                inproc_v = ("crash:" + io["err"]) if io["verdict"] == "crash" else io["verdict"]
                if cli_v != inproc_v or (cli_v == "stale" and not (rewritten and r["exit"] == 0)):
                    res.internal_errors.append({"what": "in-process gate and CLI disagree on a corrupted cache",
                                                "label": cases[i]["label"], "cli": cli_v, "in_process": inproc_v,
                                                "rewritten": rewritten, "exit": r["exit"]})
    finally:
        shutil.rmtree(d, ignore_errors=True)


# ------------------------------------------------------------------ dependencies, in-process

_OPENED = {"on": False, "paths": []}
_HOOKED = []


def _audit(event, args):
    if _OPENED["on"] and event == "open" and args and isinstance(args[0], str):
        mode = args[1] if len(args) > 1 else None
        if mode is not None and "b" in str(mode):
            return
        # Python's own import system also opens sources (rattr's locator asks importlib for stdlib
        # names, which imports the parent module): those are not reads of the analysis
        try:
            if sys._getframe(1).f_code.co_filename.startswith("<frozen importlib"):
                return
        except Exception:
            pass
        _OPENED["paths"].append(args[0])


def deps_cases(tier, rng):
    """(state, option index): every follow level x exclusion sets that hit / miss each module class x
    project states in which modules of every class are imported directly and transitively."""
    shapes = [
        {"target": 6, "pipmod": 2, "stdmod": 2},
        {"target": 8, "pipmod": 4, "stdmod": 2},
        {"target": 9, "direct": 6},
        {"target": 9, "direct": 8, "stddeep": 1},
        {"target": 7, "pipmod": 3},
        {"target": 6, "pipmod": 0, "stdmod": 0, "direct": 2},
        {"target": 0, "direct": 6},
    ]
    opts = [i for i, o in enumerate(OPTIONS) if o["via"] == "short" and not o["other"] and not o["x"]
            and (i in LEVEL_OPT.values() or (o["follow"] in (2, 3) and o["F"]))]
    # the case / origin / stdlib-name groups at level 1 too
    for key in (("F", "case"), ("F", "case-pip"), ("F", "origin"), ("F", "stdlib-name")):
        opts += [i for i in GROUPS[key] if i not in opts]
    cases = [(dict(STATE0, **sh), oi) for sh in shapes for oi in opts]
    if tier == "quick":
        keep = [c for c in cases if c[1] in LEVEL_OPT.values()]
        rest = [c for c in cases if c[1] not in LEVEL_OPT.values()]
        rng.shuffle(rest)
        cases = keep + rest[:90]
    return cases


def deps_in_process(d, cases):
    """The real import follower + make_cacheable_import_info on every case; which source files were
    opened for reading while the follower ran is observed from outside (audit hook)."""
    import importlib as _il

    from rattr.analyser import file as F
    from rattr.models.results import util as ru

    if not _HOOKED:
        sys.addaudithook(_audit)
        _HOOKED.append(True)
    outs = []
    saved_path = list(sys.path)
    on_disk = {}
    try:
        with impl.in_dir(str(d)):
            sys.path[1:1] = [str(d / SP_DIR), str(d / STD_DIR)]
            for state, oi in cases:
                for role in ROLES:
                    if on_disk.get(role) != state[role]:
                        write_role(d, role, state[role])
                        on_disk[role] = state[role]
                o = OPTIONS[oi]
                for m in list(ROLE_OF_MOD) + ["target"]:
                    sys.modules.pop(m, None)
                _il.invalidate_caches()
                impl.reset_config(_follow_imports_level=o["follow"], _excluded_imports=list(o["F"]),
                                  _excluded_names=list(o["x"]), target=Path("target.py"))
                _OPENED["paths"] = []
                with impl.Tap():
                    _OPENED["on"] = True
                    try:
                        r = impl.outcome_of(F.parse_and_analyse_file)
                    finally:
                        _OPENED["on"] = False
                    opened = sorted({norm_path(os.path.abspath(p_), str(d)) for p_ in _OPENED["paths"]
                                     if p_.endswith(".py") and os.path.abspath(p_).startswith(str(d) + "/")})
                    ob = {"outcome": r[0] if r[0] != "crash" else "crash:" + str(r[1]), "opened": opened}
                    if r[0] == "ok":
                        file_ir, import_irs, _ = r[1]
                        ob["irs"] = list(import_irs.keys())
                        ri = impl.outcome_of(ru.make_cacheable_import_info, file_ir, import_irs)
                        if ri[0] == "ok":
                            ob["recorded"] = sorted(norm_path(str(i.filepath), str(d)) for i in ri[1])
                        else:
                            ob["outcome"] = "import-info-" + ":".join(map(str, ri[:2]))
                outs.append(ob)
    finally:
        sys.path[:] = saved_path
        for m in list(ROLE_OF_MOD) + ["target"]:
            sys.modules.pop(m, None)
    return outs


def deps_stream(res, tier, rng, model):
    """`Frame.covers`, observed directly: every source file the follower opens is the target or a
    recorded origin; and the Lean model predicts exactly the files opened, the keys of `import_irs`
    and the recorded origins."""
    cases = deps_cases(tier, rng)
    d = make_project("c19d_")
    try:
        outs = deps_in_process(d, cases)
        payloads = []
        for state, oi in cases:
            ops = [["edit", r, state[r]] for r in ROLES if state[r] != 0] + [["changeOption", oi], ["runWithCache"]]
            recs = [{"op": o_} for o_ in ops[:-1]] + [{"op": ops[-1], "state": dict(state, opt=oi), "dir": str(d),
                                                      "fresh": {"exit": 0, "out": "{}", "tb": False}}]
            payloads.append(history_payload(ops, recs, "?"))
        mouts = model.batch([("cache_deps_history", p_) for p_ in payloads])
        for (state, oi), ob, mo in zip(cases, outs, mouts):
            o = OPTIONS[oi]
            res.evaluations += 1
            case = {"stream": "deps", "state": state, "opt": oi, "options": raw_opts(o)}
            res.nontrivial.add(common.digest(["deps", state, oi]))
            res.count(f"deps:follow={o['follow']}:{'excl' if o['F'] else 'no-excl'}")
            res.count("deps:" + ob["outcome"].split(":")[0])
            if "__error__" in mo:
                res.disagreements.append({"case": case, "model": mo})
                continue
            ms = mo["steps"][-1]
            if ob["outcome"] != "ok":
                res.count("deps:not-completed")
                if ms.get("bfs") == "done":
                    res.disagreements.append({"case": case, "impl": ob, "model": {"bfs": ms.get("bfs")}})
                continue
            # oracle: read => target or recorded
            for f_ in ob["opened"]:
                if f_ != "target.py" and f_ not in ob["recorded"]:
                    role = next((r for r in ROLES if FILES[r][0] == f_), "?")
                    res.violations.append({"signature": f"module-read-but-not-recorded:{CLASS.get(role, '?')};follow={o['follow']}",
                                           "case": {**case, "file": f_}, "impl": ob})
            for f_ in ob["opened"]:
                res.count("deps:read:" + CLASS.get(next((r for r in ROLES if FILES[r][0] == f_), "?"), "?"))
            mine = {"opened": sorted(ms["readSet"]), "recorded": sorted(ms["recorded"]), "irs": ms["analysed"]}
            theirs = {"opened": ob["opened"], "recorded": ob["recorded"], "irs": ob["irs"]}
            if ms.get("bfs") != "done" or mine != theirs:
                res.disagreements.append({"case": case, "impl": theirs, "model": {**mine, "bfs": ms.get("bfs")}})
    finally:
        shutil.rmtree(d, ignore_errors=True)


# ------------------------------------------------------------------ arguments hash, in-process

def argkey_family(tier, rng):
    """Option sets for make_arguments_hash: every follow level x pattern lists of the near-collision
    groups (as excluded imports, as excluded names, and combined), plus None for 'option not given'."""
    Fs, xs = [None, []], [None, []]
    for members in F_GROUPS.values():
        Fs += [m for m in members if m not in Fs]
    for members in X_GROUPS.values():
        xs += [m for m in members if m not in xs]
    # each pattern list also in the other field
    Fs += [m for m in xs if m not in Fs]
    xs += [m for m in Fs if m not in xs]
    fam = [(f, F, None) for f in (0, 1, 2, 3) for F in Fs] + [(f, None, x) for f in (0, 1, 2, 3) for x in xs]
    combos = [(f, F, x) for f in (1, 2) for F in Fs[1:] for x in xs[1:]]
    rng.shuffle(combos)
    fam += combos[:600 if tier == "quick" else 6000]
    fam += [(o["follow"], list(o["F"]), list(o["x"])) for o in OPTIONS]
    seen, out = set(), []
    for c in fam:
        k = json.dumps(c)
        if k not in seen:
            seen.add(k)
            out.append(c)
    return out


def real_argument_hashes(fam):
    from rattr.models.results import util as ru

    outs = []
    for f, F, x in fam:
        impl.reset_config(_follow_imports_level=f, _excluded_imports=F, _excluded_names=x)
        o = impl.outcome_of(ru.make_arguments_hash)
        outs.append(o[1] if o[0] == "ok" else "<" + ":".join(map(str, o[:2])) + ">")
    return outs


def canon_opts(c):
    f, F, x = c
    return json.dumps([f, sorted(set(F or [])), sorted(set(x or []))])


def option_difference(c1, c2):
    out = []
    if c1[0] != c2[0]:
        out.append("follow")
    for name, a_, b_ in (("F", c1[1] or [], c2[1] or []), ("x", c1[2] or [], c2[2] or [])):
        k = pattern_change_kind(sorted(set(a_)), sorted(set(b_)))
        if k:
            out.append(f"{name}:{k}")
    if not out:
        return "nothing"
    # the same text moved to the other field
    if sorted(set(c1[1] or [])) == sorted(set(c2[2] or [])) and sorted(set(c1[2] or [])) == sorted(set(c2[1] or [])):
        return "fields-swapped"
    return "+".join(out)


def argkey_stream(res, tier, rng, model):
    """make_arguments_hash in-process on a family of option sets vs the Lean `argsKey`: two option sets
    get the same hash iff they get the same key; oracle: the same hash only if follow level and both
    pattern SETS are the same."""
    fam = argkey_family(tier, rng)
    hashes = real_argument_hashes(fam)
    pre = live_facts()["litPrefix"]
    mouts = model.batch([("cache_argkey", {"prefix": pre, "opts": {"follow": f, "F": F or [], "x": x or []}})
                         for f, F, x in fam])
    by_hash, by_key = {}, {}
    for c, h, mo in zip(fam, hashes, mouts):
        res.evaluations += 1
        res.count("argkey:option-set")
        res.nontrivial.add(common.digest(["argkey", c]))
        case = {"stream": "argkey", "opts": c}
        if h.startswith("<"):
            res.violations.append({"signature": "other:make-arguments-hash-raises", "case": case, "impl": h})
            continue
        if "__error__" in mo:
            res.disagreements.append({"case": case, "model": mo})
            continue
        mk = model_optkey(mo)
        if mk != canon_opts(c) or mo.get("prefix") != pre:
            res.internal_errors.append({"what": "Lean argsKey differs from sorted(set(.)) computed in Python", "case": case,
                                        "lean": mo})
        by_hash.setdefault(h, []).append(c)
        by_key.setdefault(mk, []).append((c, h))
    for h, cs in by_hash.items():
        keys = sorted({canon_opts(c) for c in cs})
        if len(keys) > 1:
            c1 = cs[0]
            c2 = next(c for c in cs if canon_opts(c) != canon_opts(c1))
            diff = option_difference(c1, c2)
            res.count("argkey:collision:" + diff)
            case = {"stream": "argkey", "opts": c1, "opts2": c2, "colliding_option_sets": len(cs)}
            res.violations.append({"signature": "arguments-hash-collision:" + diff, "case": case, "impl": h})
            res.disagreements.append({"case": case, "impl": "same hash", "model": "different keys"})
    for k, chs in by_key.items():
        hs = sorted({h for _, h in chs})
        if len(hs) > 1:
            res.disagreements.append({"case": {"stream": "argkey", "opts": chs[0][0], "opts2": chs[-1][0]},
                                      "impl": "different hashes", "model": "same key " + k})


# ------------------------------------------------------------------ hash probe

def hash_probe_cases():
    yield from ((n, None) for n in (0, 1, BLOCK - 1, BLOCK, BLOCK + 1, 2 * BLOCK - 1, 2 * BLOCK, 2 * BLOCK + 1,
                                    3 * BLOCK + 17))
    yield from ((n, 8) for n in range(0, 42))


def hash_probe_one(d, n, blocksize):
    from rattr.models.util.hash import hash_file_content

    # the last byte differs from any byte before it, so every truncated digest is wrong
    content = (b"0123456789abcdef" * (n // 16 + 1))[:max(n - 1, 0)] + (b"Z" if n else b"")
    f = Path(d) / "blob.bin"
    f.write_bytes(content)
    got = impl.outcome_of(hash_file_content, f) if blocksize is None else \
        impl.outcome_of(hash_file_content, f, blocksize=blocksize)
    return got, md5(content)


def hash_probe(res):
    """`hash_file_content` must be md5 of the WHOLE file (the model's 'hash = content' assumption):
    sizes around k * blocksize +- 1 with the default block size, and every size 0..41 with blocksize 8."""
    d = tempfile.mkdtemp(prefix="c19p_", dir=TMPROOT)
    try:
        for n, bs in hash_probe_cases():
            res.evaluations += 1
            res.count("hash-probe")
            got, want = hash_probe_one(d, n, bs)
            if got != ("ok", want):
                k = "exact-multiple" if n % (bs or BLOCK) == 0 else "not-a-multiple"
                where = "first-block-only" if n > (bs or BLOCK) else "within-first-block"
                res.violations.append({"signature": f"file-hash-not-md5-of-whole-content:{where}",
                                       "case": {"stream": "hash-probe", "size": n, "blocksize": bs, "default_blocksize": BLOCK,
                                                "size_class": k},
                                       "impl": list(got)[:2], "expected": want})
    finally:
        shutil.rmtree(d, ignore_errors=True)


# ------------------------------------------------------------------ run

def broken_theorems(build):
    """Names of the C19 theorems a failed proof build points at (error line -> enclosing theorem)."""
    names = set()
    try:
        lines = (common.LEAN / "RattrProofs" / "Props" / "C19.lean").read_text().splitlines()
    except Exception:
        return names
    for b_ in getattr(build, "broken", []) or []:
        for m in re.finditer(r"C19\.lean:(\d+):", str(b_.get("detail", ""))):
            ln = min(int(m.group(1)), len(lines))
            for k in range(ln - 1, -1, -1):
                t = re.match(r"\s*theorem\s+([\w.']+)", lines[k])
                if t:
                    names.add(t.group(1))
                    break
    return names


def directed_histories(names, rng):
    """When a Tie-A obligation about the hashed options / the recorded imports broke, search where it
    points: every ordered pair inside every near-collision group, resp. every variant of every module
    class at every level."""
    out = []
    if any(k in n for n in names for k in ("hashed", "option", "argsKey")):
        base = [["edit", "target", 6], ["edit", "trans", 5], ["edit", "helpers", 2]]
        for key in sorted(GROUPS):
            idx = GROUPS[key]
            for i in idx:
                for j in idx:
                    if i != j:
                        out.append(base + [["changeOption", i], ["runWithCache"], ["changeOption", j], ["runWithCache"]])
    if any(k in n for n in names for k in ("import_info", "blacklist", "pip", "follower", "bfs")):
        for lvl in (0, 1, 2, 3):
            for role in ROLES[1:]:
                h = [["edit", "target", 6], ["edit", "pipmod", 2], ["edit", "stdmod", 2], ["edit", "direct", 6],
                     ["changeOption", LEVEL_OPT[lvl]], ["runWithCache"]]
                for v in range(len(FILES[role][1])):
                    if role in BIG and v in BIG[role]:
                        continue
                    h += [["edit", role, v], ["runWithCache"]]
                out.append(h)
    return out


def run(tier, seed, build):
    res = common.Result(PID)
    res.rule = ("histories: op sequences over {edit <any file: target, local / site-packages / stdlib-named module>, "
                "changeOption <follow level, excluded imports / names, un-hashed options; short / long flags or "
                "pyproject.toml>, runWithCache, forceRefresh} executed through the real CLI, closed by a "
                "run; non-trivial = distinct history with >= 1 run with a cache file, or distinct corrupted cache "
                "content, or distinct pair of option sets given to make_arguments_hash; evaluations = CLI runs with a "
                "cache file + corrupted contents given to the gate + option sets hashed in-process")
    rng = random.Random(seed)
    from rattr._version import version

    hists = [close(h) for h in CORPUS]
    hists += [close(h) for h in class_level_histories()] + [close(h) for h in option_pair_histories()]
    names = broken_theorems(build)
    if names:
        res.extra["search_directed_by_broken_obligations"] = sorted(names)
        hists += [close(h) for h in directed_histories(names, rng)]
    if tier == "quick":
        hists += [random_history(rng, 6) for _ in range(24)] + [random_history(rng, 9) for _ in range(8)]
        hists += [random_history2(rng, 8) for _ in range(34)]
        hists += exhaustive_histories(2)
        res.extra["exhaustive_history_length"] = 2
    else:
        ex = exhaustive_histories(4)
        hists += ex
        hists += [random_history(rng, 8) for _ in range(300)]
        hists += [random_history2(rng, 10) for _ in range(250)]
        hists += [close(h) for h in directed_histories({"hashed", "import_info"}, rng)]
        res.extra["exhaustive_history_length"] = 4
        res.extra["exhaustive"] = True
    # dedupe
    uniq, seen = [], set()
    for h in hists:
        k = json.dumps(h)
        if k not in seen:
            seen.add(k)
            uniq.append(h)
    hists = uniq
    res.extra["histories"] = len(hists)

    with cf.ThreadPoolExecutor(max_workers=16) as ex:
        all_recs = list(ex.map(run_history, hists))

    # arguments-hash <-> hashed-option-tuple mapping observed on the real documents
    key_to_hash, hash_to_key = {}, {}
    for recs in all_recs:
        for rec in recs:
            if "run" not in rec:
                continue
            k = optkey(OPTIONS[rec["state"]["opt"]])
            for text in (strip_nl(rec["fresh"]["out"]) if rec["fresh"]["exit"] == 0 and not rec["fresh"]["tb"] else None,):
                if text:
                    try:
                        h = json.loads(text)["arguments_hash"]
                    except Exception:
                        continue
                    key_to_hash.setdefault(k, set()).add(h)
                    hash_to_key.setdefault(h, set()).add(k)
    bad_map = {k: sorted(v) for k, v in key_to_hash.items() if len(v) > 1}
    bad_map.update({h: sorted(v) for h, v in hash_to_key.items() if len(v) > 1})
    if bad_map:
        res.violations.append({"signature": "other:arguments-hash-not-a-function-of-the-hashed-options",
                               "case": bad_map})
    argmap = {h: next(iter(ks)) for h, ks in hash_to_key.items()}

    model = common.Model()
    payloads = [history_payload(h, recs, version) for h, recs in zip(hists, all_recs)]
    mouts = model.batch([("cache_deps_history", p) for p in payloads])
    plugins_seen = set()

    for h, recs, pay, mo in zip(hists, all_recs, payloads, mouts):
        case = {"stream": "history", "ops": h}
        runs = [r for r in recs if "run" in r]
        if runs:
            res.nontrivial.add(common.digest(h))
        skip = False
        for row in pay["analysis"]:
            if "__inconsistent__" in row:
                res.violations.append({"signature": "other:from-scratch-run-not-deterministic", "case": case,
                                       "detail": row})
        # oracle
        for i, rec in enumerate(recs):
            if "run" not in rec:
                continue
            res.evaluations += 1
            io = impl_out(rec)
            res.count("run:" + io.split(":")[0])
            o_ = OPTIONS[rec["state"]["opt"]]
            res.count(f"run-at:follow={o_['follow']}")
            res.count("run-with:" + ("+".join(k for k in ("F", "x", "other") if o_[k]) or "no-exclusions") + ":" + o_["via"])
            for ch in rec.get("since_write") or ["nothing-changed"]:
                res.count("since-write:" + re.sub(r":\d->\d$", "", ch))
            for sig, detail in judge_run(rec):
                if sig == "__skip__":
                    skip = True
                    res.skipped_outside_fragment += 1
                    continue
                # the prefix of the history up to the offending run is the replay
                res.violations.append({"signature": sig, "case": {**case, "ops": h[:i + 1], "step": i, "state": rec["state"]},
                                       "detail": detail,
                                       "impl": {"out": io, "exit": rec["run"]["exit"], "stderr_tail": rec["run"]["err_tail"],
                                                "fresh_exit": rec["fresh"]["exit"]}})
        for op in h:
            op = normalise(op)
            res.count("op:" + op[0] + (":" + CLASS[op[1]] if op[0] == "edit" else ""))
        res.sample({"case": case, "impl": [impl_out(r) if "run" in r else "-" for r in recs]}, cap=6)
        if skip:
            continue
        # correspondence with the Lean state machine
        if "__error__" in mo:
            res.disagreements.append({"case": case, "model": mo})
            continue
        for i, (rec, ms) in enumerate(zip(recs, mo["steps"])):
            if "run" not in rec:
                continue
            io = impl_out(rec)
            d = rec["dir"]
            real = real_disk_projection(rec["after"], d, version, argmap, plugins_seen)
            mdisk = ms["disk"]
            if isinstance(mdisk, dict):
                mdisk = {**mdisk, "imports": sorted(mdisk["imports"]), "args": model_optkey(mdisk["args"])}
            # my own reading of the import follower / recorded origins vs the Lean model's
            exp = expected_analysis(rec["state"], d)
            mine = None if exp is None else {"analysed": exp[0], "recorded": exp[1]}
            theirs = None if ms.get("bfs") != "done" else {"analysed": ms["analysed"], "recorded": sorted(ms["recorded"])}
            if mine != theirs or not ms.get("builtinsUnreadable", True):
                res.internal_errors.append({"what": "Lean import follower / recorded origins differ from the independent "
                                                    "Python reading", "case": {**case, "step": i}, "python": mine,
                                            "lean": theirs, "bfs": ms.get("bfs")})
                break
            if ms.get("missingRow") or io != ms["out"] or real != mdisk:
                res.disagreements.append({"case": {**case, "step": i}, "impl": {"out": io, "disk": real},
                                          "model": {"out": ms["out"], "disk": mdisk,
                                                    "missingRow": ms.get("missingRow")}})
                break
    plugins_seen.discard(None)
    if len(plugins_seen) > 1:
        res.violations.append({"signature": "other:plugins-hash-not-constant", "case": sorted(plugins_seen)})

    argkey_stream(res, tier, rng, model)
    deps_stream(res, tier, rng, model)
    corruption_stream(res, tier, rng, model)
    hash_probe(res)
    res.extra["hash_block_size"] = BLOCK

    res.assumptions = [
        "frame hypothesis, reduced (Lean: FreshFrame): the results depend only on target path, hashed options, version, plugins and the content of the files the import follower reads — tested end-to-end by the from-scratch oracle, not proved; that every file read is the target or a recorded origin, and that the recorded origins depend only on the files read, are now theorems about the model of the import follower + make_cacheable_import_info (deps_covers, deps_recorded_frame), and that model is compared with every real cache document",
        "re.fullmatch, isort's place_module and the module locator are trusted classifiers (parameters of the model); hash_string(str(HashableArguments)) is treated as injective, like md5",
        "[interp] the excluded-import / excluded-name patterns are a SET of the strings as given: order and repetition are not a change, letter case and white space are",
        "md5 treated as injective; directory structure fixed (content edits only)",
        "[interp] 'a fresh run would give the cached results' includes 'a fresh run would succeed': a hit under --threshold/--strict where the from-scratch run is fatal is a violation",
        "[interp] 'corrupted or of the wrong shape' = not UTF-8 / not JSON / a JSON value whose fields do not have the declared JSON types; same-type value changes (undetectable without a checksum) are only required not to crash",
        "PYTHONHASHSEED=0 for every CLI run (hash-seed dependence is C05/C18's subject)",
    ]
    return res


def replay(path):
    j = json.load(open(path))
    print(json.dumps(j, indent=1)[:6000])
    case = j.get("case") or {}
    if case.get("stream") == "history":
        recs = run_history(case["ops"])
        for r in recs:
            if "run" in r:
                print("op", r["op"], "->", impl_out(r), "exit", r["run"]["exit"], "| from-scratch exit", r["fresh"]["exit"],
                      "| oracle:", judge_run(r))
            elif r["op"][0] == "changeOption":
                o = OPTIONS[r["op"][1]]
                print("op", r["op"], "= rattr", " ".join(map(repr, o["args"])),
                      ("| pyproject.toml: " + o["toml"].replace("\n", " ; ")) if o["toml"] else "")
            elif r["op"][0] in ("edit", *EDIT_OPS):
                op = normalise(r["op"])
                print("op", r["op"], "=", FILES[op[1]][0], "<-", repr(src_of(op[1], op[2])[-120:]))
            else:
                print("op", r["op"])
        mo = common.Model().batch([("cache_deps_history", history_payload(case["ops"], recs, "?"))])[0]
        print("model:", [s["out"] for s in mo.get("steps", [])] if isinstance(mo, dict) and "steps" in mo else mo)
    elif case.get("stream") == "deps":
        d = make_project("c19d_")
        try:
            ob = deps_in_process(d, [(case["state"], case["opt"])])[0]
            print("options:", raw_opts(OPTIONS[case["opt"]]))
            print("files opened by the import follower:", ob.get("opened"))
            print("origins recorded by make_cacheable_import_info:", ob.get("recorded"))
            print("read but not recorded:", [f for f in ob.get("opened", []) if f != "target.py" and f not in ob.get("recorded", [])])
        finally:
            shutil.rmtree(d, ignore_errors=True)
    elif case.get("stream") == "argkey":
        fam = [tuple(case["opts"])] + ([tuple(case["opts2"])] if case.get("opts2") else [])
        hs = real_argument_hashes(fam)
        pre = live_facts()["litPrefix"]
        ks = common.Model().batch([("cache_argkey", {"prefix": pre, "opts": {"follow": f, "F": F or [], "x": x or []}})
                                   for f, F, x in fam])
        for c, h, k in zip(fam, hs, ks):
            print("options (follow, excluded imports, excluded names):", c, "-> arguments hash", h, "| model key", k)
        if len(fam) == 2:
            print("same hash:", hs[0] == hs[1], "| same option sets:", canon_opts(fam[0]) == canon_opts(fam[1]),
                  "| difference:", option_difference(fam[0], fam[1]))
    elif case.get("stream") == "hash-probe":
        d = tempfile.mkdtemp(prefix="c19p_", dir=TMPROOT)
        try:
            got, want = hash_probe_one(d, case["size"], case["blocksize"])
            print("hash_file_content:", got, "| md5 of the whole content:", want)
        finally:
            shutil.rmtree(d, ignore_errors=True)
    elif case.get("stream") == "corruption":
        d, _ = make_cache_project()
        try:
            good = (d / "cache.json").read_bytes()
            if case.get("truncate_at") is not None:
                b = good[:case["truncate_at"]]
            elif case.get("bytes_hex") is not None:
                b = bytes.fromhex(case["bytes_hex"]).replace(case.get("project_dir", "\0").encode(), str(d).encode())
            else:
                print("blob not stored; label:", case.get("label"))
                return 0
            print("impl:", gate_in_process(d, [b])[1][0], "| file content:", classify_bytes(b)["k"])
        finally:
            shutil.rmtree(d, ignore_errors=True)
    return 0

"""C19 — a cache hit is declared only when a fresh run would give the cached results.

Tie B, two streams.

(1) Histories through the REAL CLI in a temp project outside /verif and /repo (target -> direct local
    module -> transitive local module). After every run with `--cache-file` we record: the
    'cache is up-to-date' info line, the exit status, whether the cache file was rewritten, its bytes.
    Independent oracle: a from-scratch run (`-o cacheable`, no cache file) in the same project state:
    a hit is legal only if that run succeeds and prints exactly the cached document; after a miss the
    written cache is exactly that document. The Lean state machine (`Cache.step`) is fed the same op
    sequence with content hashes (and, as its `Analysis` parameters, the from-scratch results digest,
    the from-scratch exit class, and the recorded-origin list computed by a 20-line import scanner
    of my own) and must predict hit / miss / fatal and the document on disk after every step.

(2) Corruptions of a real cache file through `target_cache_file_is_up_to_date` in-process
    (`impl.outcome_of`): truncation at EVERY byte offset, every node of the document replaced by
    null / numbers / bool / strings / lists / dicts, top-level scalars, arrays, strings naming a
    field, empty file, BOM, invalid UTF-8, values json.loads itself refuses (nesting depth, int size),
    import paths that are not files / cannot be stat'ed / cannot be read; a sample re-run through the
    CLI. Expected: stale. The Lean model of `deserialise` + gate (`Cache.structureDoc`, `Cache.gateJIO`)
    must predict the exact outcome class of every case.

    Since the upstream fix 16f7ad6 (`except Exception` around read_text/deserialise) every former
    `cache-gate-crash:*` class is answered stale; the stream is kept unchanged so that a regression is
    a VIOLATION (those signatures are `fixed`, not `known`, in known_findings.json). What can still
    raise is the conjunction after the try: OSError from hash_file_content on an unreadable regular file.
"""
from __future__ import annotations

import concurrent.futures as cf
import copy
import hashlib
import importlib.util
import itertools
import json
import os
import random
import re
import shutil
import subprocess
import sys
import tempfile
from pathlib import Path

import common
import impl

PID = "C19"
TABLES = None
TMPROOT = "/tmp"
HITLINE = "cache is up-to-date"

# ------------------------------------------------------------------ project family

# (source, imported module names)
TARGET = [
    ("from direct import helper\n\n\ndef top(a):\n    a.x = 1\n    return helper(a)\n", ["direct"]),
    ("# a comment\nfrom direct import helper\n\n\ndef top(a):\n    a.x = 1\n    return helper(a)\n", ["direct"]),
    ("from direct import helper\n\n\ndef top(a):\n    a.x = 1\n    return helper(a.inner)\n\n\ndef other(b):\n    return b.q\n", ["direct"]),
    ("from direct import helper\n\n\ndef top(a):\n    a.x = 1\n    return helper(a) + undefined_fn(a.k)\n", ["direct"]),  # badness 2
]
DIRECT = [
    ("from trans import leaf\n\n\ndef helper(b):\n    b.y\n    return leaf(b)\n", ["trans"]),
    ("from trans import leaf\n\n\ndef helper(b):\n    b.yy\n    return leaf(b)\n", ["trans"]),
    ("def helper(b):\n    return b.solo\n", []),
    ("import math\nfrom trans import leaf\n\n\ndef helper(b):\n    b.y\n    return leaf(b.m)\n", ["math", "trans"]),
]
TRANS = [
    ("def leaf(c):\n    return c.z\n", []),
    ("def leaf(c):\n    return c.zz\n", []),
    ("# note\ndef leaf(c):\n    return c.z\n", []),
]


def _block_size():
    """Default block size of the chunked read in hash_file_content (read from the live signature)."""
    try:
        import inspect

        from rattr.models.util.hash import hash_file_content

        b = inspect.signature(hash_file_content).parameters["blocksize"].default
        return b if isinstance(b, int) and 0 < b <= 1 << 24 else 1 << 20
    except Exception:
        return 1 << 20


BLOCK = _block_size()
_LINE = "# padding line {:07d} " + "." * 56 + "\n"
# more than two read blocks of comment lines: the code (and every edit) lies after the 2nd block boundary
PAD = "".join(_LINE.format(i) for i in range((2 * BLOCK + 300_000) // len(_LINE.format(0)) + 1))
# big-file variants: identical padding, the small variants' code at the very END of the file
BIG = {"target": (4, 5), "direct": (4, 5), "trans": (3, 4)}
TARGET += [(PAD + TARGET[0][0], ["direct"]), (PAD + TARGET[2][0], ["direct"])]
DIRECT += [(PAD + DIRECT[0][0], ["trans"]), (PAD + DIRECT[1][0], ["trans"])]
TRANS += [(PAD + TRANS[0][0], []), (PAD + TRANS[1][0], [])]

# hashed = (follow level, excluded imports, excluded names); other = un-hashed options
OPTIONS = [
    {"args": [], "follow": 1, "F": [], "x": [], "other": ""},
    {"args": ["-f", "0"], "follow": 0, "F": [], "x": [], "other": ""},
    {"args": ["-F", "trans"], "follow": 1, "F": ["trans"], "x": [], "other": ""},
    {"args": ["-x", "leaf"], "follow": 1, "F": [], "x": ["leaf"], "other": ""},
    {"args": ["-H"], "follow": 1, "F": [], "x": [], "other": "-H"},
    {"args": ["--threshold", "1"], "follow": 1, "F": [], "x": [], "other": "--threshold 1"},
    {"args": ["-F", "direct"], "follow": 1, "F": ["direct"], "x": [], "other": ""},
    {"args": ["-f", "2"], "follow": 2, "F": [], "x": [], "other": ""},
    # exclusion patterns that match the dotted name of an imported MEMBER (trans.leaf, direct.helper)
    # but no module: nothing is excluded, every module is still followed and must be recorded
    {"args": ["-F", r".*\.leaf"], "follow": 1, "F": [r".*\.leaf"], "x": [], "other": ""},
    {"args": ["-F", r"direct\.helper"], "follow": 1, "F": [r"direct\.helper"], "x": [], "other": ""},
    {"args": ["-F", r".*\.[hl]\w+", "-F", r".*\._\w+"], "follow": 1, "F": [r".*\.[hl]\w+", r".*\._\w+"], "x": [], "other": ""},
]
FILES = {"target": ("target.py", TARGET), "direct": ("direct.py", DIRECT), "trans": ("trans.py", TRANS)}
EDIT_OPS = {"editTarget": "target", "editDirect": "direct", "editTransitive": "trans"}


def md5(b) -> str:
    return hashlib.md5(b if isinstance(b, bytes) else b.encode()).hexdigest()


def optkey(o) -> str:
    return json.dumps([o["follow"], sorted(o["F"]), sorted(o["x"])])


_STDLIB_ORIGIN = {}


def stdlib_origin(name):
    if name not in _STDLIB_ORIGIN:
        spec = importlib.util.find_spec(name)
        _STDLIB_ORIGIN[name] = spec.origin if spec else None
    return _STDLIB_ORIGIN[name]


LOCAL = {"direct": ("direct.py", "direct"), "trans": ("trans.py", "trans")}


def expected_recorded(state):
    """My own reading of make_cacheable_import_info for this project family: origins of every import
    of every analysed module (target + followed local modules), minus excluded imports."""
    o = OPTIONS[state["opt"]]
    imports_of = {"target": TARGET[state["target"]][1], "direct": DIRECT[state["direct"]][1],
                  "trans": TRANS[state["trans"]][1]}

    def excluded(m):
        return any(re.fullmatch(p, m) for p in o["F"])

    analysed, queue, rec = ["target"], ["target"], set()
    while queue:
        cur = queue.pop(0)
        for m in imports_of[cur]:
            if excluded(m):
                continue
            if m in LOCAL:
                rec.add(LOCAL[m][0])
                if o["follow"] >= 1 and m not in analysed:
                    analysed.append(m)
                    queue.append(m)
            else:
                org = stdlib_origin(m)
                if org and org != "built-in":
                    rec.add(org)
    return sorted(rec)


# ------------------------------------------------------------------ history generation

def random_history(rng, maxlen):
    n = rng.randint(2, maxlen)
    ops = []
    for _ in range(n):
        r = rng.random()
        if r < 0.34:
            ops.append(["runWithCache"])
        elif r < 0.42:
            ops.append(["forceRefresh"])
        elif r < 0.56:
            ops.append(["editTarget", rng.randrange(len(TARGET))])
        elif r < 0.70:
            ops.append(["editDirect", rng.randrange(len(DIRECT))])
        elif r < 0.84:
            ops.append(["editTransitive", rng.randrange(len(TRANS))])
        else:
            ops.append(["changeOption", rng.randrange(len(OPTIONS))])
    return close(ops)


def close(ops):
    """Drop trailing ops nobody observes, end with a run."""
    ops = [list(o) for o in ops]
    if not ops or ops[-1][0] not in ("runWithCache", "forceRefresh"):
        ops.append(["runWithCache"])
    return ops


CORPUS = [
    # the strictness-bypass history (known finding)
    [["editTarget", 3], ["runWithCache"], ["changeOption", 5], ["runWithCache"]],
    # DESIGN §5: edit of a transitive import, option change, repeat
    [["runWithCache"], ["runWithCache"], ["editTransitive", 1], ["runWithCache"], ["runWithCache"],
     ["changeOption", 3], ["runWithCache"], ["runWithCache"], ["changeOption", 0], ["runWithCache"]],
    # the dependency set shrinks, then the dropped module changes, then it is needed again
    [["runWithCache"], ["editDirect", 2], ["runWithCache"], ["editTransitive", 1], ["runWithCache"],
     ["editDirect", 0], ["runWithCache"], ["editTransitive", 0], ["runWithCache"]],
    # revert to earlier content (hash equal again), forced refresh, failed run keeps the old cache
    [["runWithCache"], ["editTarget", 2], ["editTarget", 0], ["runWithCache"], ["forceRefresh"],
     ["changeOption", 5], ["editTarget", 3], ["runWithCache"], ["forceRefresh"], ["changeOption", 0],
     ["runWithCache"]],
    # not followed / excluded modules are not dependencies
    [["changeOption", 2], ["runWithCache"], ["editTransitive", 1], ["runWithCache"], ["changeOption", 6],
     ["runWithCache"], ["editDirect", 1], ["runWithCache"], ["changeOption", 1], ["runWithCache"],
     ["editTransitive", 2], ["runWithCache"], ["editDirect", 3], ["runWithCache"]],
    # big files (> 2 read blocks of padding): edits confined to the END of the transitive import,
    # of the direct import and of the target must each be noticed
    [["editTransitive", 3], ["runWithCache"], ["runWithCache"], ["editTransitive", 4], ["runWithCache"],
     ["editDirect", 4], ["runWithCache"], ["editDirect", 5], ["runWithCache"], ["runWithCache"]],
    [["editTarget", 4], ["runWithCache"], ["editTarget", 5], ["runWithCache"], ["editTarget", 4],
     ["runWithCache"], ["runWithCache"]],
    # -F patterns matching only member names: the followed modules stay dependencies
    [["changeOption", 8], ["runWithCache"], ["editTransitive", 1], ["runWithCache"], ["runWithCache"],
     ["changeOption", 9], ["runWithCache"], ["editDirect", 1], ["runWithCache"], ["editTransitive", 0],
     ["runWithCache"]],
    [["changeOption", 10], ["runWithCache"], ["editDirect", 1], ["runWithCache"], ["editTransitive", 2],
     ["runWithCache"], ["editTransitive", 1], ["runWithCache"]],
]

# exhaustive alphabet: parameterless toggles
TOGGLE = {"editTarget": [0, 2], "editDirect": [0, 2], "editTransitive": [0, 1], "changeOption": [0, 3]}


def exhaustive_histories(maxlen):
    alpha = ["editTarget", "editDirect", "editTransitive", "changeOption", "runWithCache", "forceRefresh"]
    seen, out = set(), []
    for n in range(1, maxlen + 1):
        for seq in itertools.product(alpha, repeat=n):
            st = {"editTarget": 0, "editDirect": 0, "editTransitive": 0, "changeOption": 0}
            ops = []
            for a in seq:
                if a in st:
                    st[a] = 1 - st[a]
                    ops.append([a, TOGGLE[a][st[a]]])
                else:
                    ops.append([a])
            ops = close(ops)
            k = json.dumps(ops)
            if k not in seen:
                seen.add(k)
                out.append(ops)
    return out


# ------------------------------------------------------------------ implementation side (CLI)

def cli(args, cwd, timeout=120):
    env = dict(os.environ)
    env["PYTHONHASHSEED"] = "0"
    p = subprocess.run([sys.executable, "-m", "rattr", *args], cwd=cwd, env=env, capture_output=True,
                       timeout=timeout)
    err = p.stderr.decode("utf-8", "replace")
    tb = "Traceback (most recent call last)" in err
    exc = None
    if tb:
        if "ClassValidationError" in err:
            exc = "ClassValidationError"
        else:
            for line in reversed(err.strip().splitlines()):
                m = re.match(r"^[\s|+]*([A-Za-z_][\w.]*)(:|$)", line)
                if m:
                    exc = m.group(1).split(".")[-1]
                    break
    return {"exit": p.returncode, "out": p.stdout.decode("utf-8", "replace"), "tb": tb, "exc": exc,
            "hit": HITLINE in err, "err_tail": err.strip().splitlines()[-1][-200:] if err.strip() else ""}


def stat_of(p: Path):
    try:
        s = p.stat()
        return [s.st_mtime_ns, s.st_size, s.st_ino]
    except FileNotFoundError:
        return None


def read_or_none(p: Path):
    try:
        return p.read_bytes().decode("utf-8", "replace")
    except FileNotFoundError:
        return None


def make_project(prefix="c19_"):
    d = Path(tempfile.mkdtemp(prefix=prefix, dir=TMPROOT))
    (d / "pyproject.toml").write_text("")
    return d


def run_history(ops, init_disk=None):
    """Execute one history against the real CLI. Returns one record per op."""
    d = make_project("c19h_")
    try:
        state = {"target": 0, "direct": 0, "trans": 0, "opt": 0}
        for k, (fn, variants) in FILES.items():
            (d / fn).write_text(variants[0][0])
        cache = d / "cache.json"
        if init_disk is not None:
            cache.write_bytes(init_disk)
        recs = []
        for op in ops:
            name = op[0]
            if name in EDIT_OPS:
                k = EDIT_OPS[name]
                state[k] = op[1]
                fn, variants = FILES[k]
                (d / fn).write_text(variants[op[1]][0])
                recs.append({"op": op})
            elif name == "changeOption":
                state["opt"] = op[1]
                recs.append({"op": op})
            else:
                o = OPTIONS[state["opt"]]
                base = ["-w", "all", *o["args"]]
                fresh = cli([*base, "-o", "cacheable", "target.py"], d)
                before, st_before = read_or_none(cache), stat_of(cache)
                extra = ["-r"] if name == "forceRefresh" else []
                r = cli([*base, *extra, "--cache-file", "cache.json", "-o", "silent", "target.py"], d)
                after, st_after = read_or_none(cache), stat_of(cache)
                recs.append({"op": op, "state": dict(state), "fresh": fresh, "run": r, "before": before,
                             "after": after, "rewritten": st_before != st_after, "dir": str(d)})
        return recs
    finally:
        shutil.rmtree(d, ignore_errors=True)


# ------------------------------------------------------------------ oracle for histories

def diff_fields(a_text, b_text):
    try:
        a, b = json.loads(a_text), json.loads(b_text)
        ks = sorted(k for k in set(a) | set(b) if a.get(k) != b.get(k))
        return "+".join(ks) or "bytes-only"
    except Exception:
        return "unparseable"


def strip_nl(s):
    return s[:-1] if s.endswith("\n") else s


def judge_run(rec):
    """Property oracle on one run record. Returns list of (signature, detail)."""
    out = []
    r, f, name = rec["run"], rec["fresh"], rec["op"][0]
    if f["tb"]:
        return [("__skip__", "from-scratch run crashed: " + str(f["exc"]))]
    fresh_ok = f["exit"] == 0
    fdoc = strip_nl(f["out"]) if fresh_ok else None
    if r["tb"]:
        return [(f"run-crash:{r['exc']}", r["err_tail"])]
    if r["hit"]:
        if name == "forceRefresh":
            out.append(("force-refresh-hit", "-r answered up-to-date"))
        if r["exit"] != 0:
            out.append(("other:hit-with-nonzero-exit", str(r["exit"])))
        if rec["rewritten"] or rec["after"] != rec["before"]:
            out.append(("other:hit-but-cache-file-modified", ""))
        if not fresh_ok:
            out.append(("hit-but-fresh-run-fatal", f["err_tail"]))
        elif fdoc != rec["before"]:
            out.append(("hit-but-fresh-run-differs:" + diff_fields(fdoc, rec["before"] or "null"), ""))
    else:
        if r["exit"] == 0:
            if not fresh_ok:
                out.append(("other:cached-run-ok-but-fresh-run-fatal", f["err_tail"]))
            elif rec["after"] != fdoc:
                out.append(("miss-wrote-non-fresh-cache:" + diff_fields(fdoc, rec["after"] or "null"), ""))
            if not rec["rewritten"]:
                out.append(("other:miss-but-cache-file-not-written", ""))
        else:
            if fresh_ok:
                out.append(("other:cached-run-fatal-but-fresh-run-ok", r["err_tail"]))
    return out


def impl_out(rec):
    r = rec["run"]
    if r["tb"]:
        return "crash:" + str(r["exc"])
    if r["hit"]:
        return "hit"
    if r["exit"] == 0:
        return "missWritten"
    return "missFatal"


# ------------------------------------------------------------------ model side for histories

def norm_path(p, d):
    return p[len(d) + 1:] if p.startswith(d + "/") else p


def results_digest(doc):
    return common.digest(doc.get("results"))


def history_payload(ops, recs, version):
    files = [["target.py", md5(TARGET[0][0])], ["direct.py", md5(DIRECT[0][0])], ["trans.py", md5(TRANS[0][0])]]
    for m in ("math",):
        org = stdlib_origin(m)
        if org and os.path.isfile(org):
            files.append([org, md5(Path(org).read_bytes())])
    mops, rows, seen = [], [], {}
    for op, rec in zip(ops, recs):
        name = op[0]
        if name in EDIT_OPS:
            mops.append({"op": name, "c": md5(FILES[EDIT_OPS[name]][1][op[1]][0])})
        elif name == "changeOption":
            o = OPTIONS[op[1]]
            mops.append({"op": name, "o": optkey(o), "x": o["other"]})
        else:
            mops.append({"op": name})
            st = rec["state"]
            o = OPTIONS[st["opt"]]
            key = [md5(TARGET[st["target"]][0]), md5(DIRECT[st["direct"]][0]), md5(TRANS[st["trans"]][0]),
                   optkey(o), o["other"]]
            f = rec["fresh"]
            fails = f["exit"] != 0
            fresh = "<fatal>"
            if not fails:
                try:
                    fresh = results_digest(json.loads(f["out"]))
                except Exception:
                    fresh = "<unparseable>"
            row = {"key": key, "recorded": expected_recorded(st), "fails": fails, "fresh": fresh}
            k = json.dumps(key)
            if k in seen:
                if seen[k] != row:
                    row["__inconsistent__"] = seen[k]
            else:
                seen[k] = row
                rows.append(row)
    return {"init": {"target": "target.py", "direct": "direct.py", "transitive": "trans.py", "files": files,
                     "emptyHash": md5(b""), "opts": optkey(OPTIONS[0]), "other": "", "version": "V",
                     "plugins": "P"},
            "disk": "absent", "analysis": rows, "ops": mops}


def real_disk_projection(text, d, version, argmap, plugins_seen):
    if text is None:
        return "absent"
    try:
        doc = json.loads(text)
    except Exception:
        return "malformed"
    plugins_seen.add(doc.get("plugins_hash"))
    return {
        "version": "V" if doc.get("version") == version else doc.get("version"),
        "args": argmap.get(doc.get("arguments_hash"), doc.get("arguments_hash")),
        "plugins": "P",
        "filepath": doc.get("filepath"),
        "filehash": doc.get("filehash"),
        "imports": sorted([norm_path(i["filepath"], d), i["filehash"]] for i in doc.get("imports", [])),
        "results": results_digest(doc),
    }


# ------------------------------------------------------------------ corruption stream

REPS = [None, 1, True, 1.5, -3, "s", "", [], [1], ["x"], {}, {"k": 1}, {"k": "v"}]
SETKEYS = ("gets", "sets", "dels", "calls")


def kind(v):
    if v is None:
        return "null"
    if isinstance(v, bool):
        return "bool"
    if isinstance(v, (int, float)):
        return "number"
    if isinstance(v, str):
        return "string"
    if isinstance(v, list):
        return "list"
    return "dict"


def tag(v):
    if v is None:
        return {"t": "null"}
    if isinstance(v, bool):
        return {"t": "bool", "v": v}
    if isinstance(v, (int, float)):
        return {"t": "num", "r": str(v)}
    if isinstance(v, str):
        return {"t": "str", "v": v}
    if isinstance(v, list):
        return {"t": "arr", "v": [tag(x) for x in v]}
    return {"t": "obj", "v": [[k, tag(x)] for k, x in v.items()]}


def paths(v, p=()):
    yield p
    if isinstance(v, dict):
        for k in v:
            yield from paths(v[k], p + (k,))
    elif isinstance(v, list):
        for i, x in enumerate(v):
            yield from paths(x, p + (i,))


def getp(d, p):
    for k in p:
        d = d[k]
    return d


def setp(d, p, r):
    if not p:
        return copy.deepcopy(r)
    d = copy.deepcopy(d)
    c = d
    for k in p[:-1]:
        c = c[k]
    c[p[-1]] = copy.deepcopy(r)
    return d


def delp(d, p):
    d = copy.deepcopy(d)
    c = d
    for k in p[:-1]:
        c = c[k]
    del c[p[-1]]
    return d


def pathclass(p):
    out = ""
    for i, k in enumerate(p):
        if isinstance(k, int):
            out += "[]"
        else:
            if i == 1 and p[0] == "results":
                k = "*"
            elif i == 2 and p[0] == "results" and k in SETKEYS:
                k = "<set>"
            out += ("." if out else "") + k
    return out


FIELD_NAMES = ["version", "arguments_hash", "plugins_hash", "filepath", "filehash", "imports", "results"]


def top_shape(v):
    k = kind(v)
    if k in ("null", "number", "bool"):
        return "top-level-scalar"
    if k == "string":
        return "top-level-string-naming-a-field" if any(f in v for f in FIELD_NAMES) else "top-level-string"
    if k == "list":
        return "top-level-list-naming-a-field" if any(f in v for f in FIELD_NAMES) else "top-level-list"
    return "top-level-object"


def classify_bytes(b):
    """Independent (CPython json) reading of the file content, for the model's `FileContent`."""
    try:
        t = b.decode("utf-8")
    except UnicodeDecodeError:
        return {"k": "notUtf8"}
    try:
        v = json.loads(t)
    except (ValueError, RecursionError):
        # JSONDecodeError, or json.loads refusing a value it could lex (int digit limit, nesting
        # depth): for the gate all of these are "loads raised"
        return {"k": "notJson"}
    return {"k": "json", "v": tag(v)}


# paths an import entry may be made to name: not files, not stat-able, or files that cannot be read
EXOTIC_PATHS = ["a\x00b", "x" * 5000, ".", "/", "/dev/null", "/proc/self/mem", "no/such/file", "\ud800"]


def path_facts(paths_):
    """Independent reading of what hash_file_content will meet: (files [[p, md5]], unreadable [p])."""
    files, unreadable = [], []
    for p in paths_:
        try:
            isf = os.path.isfile(p)
        except Exception:
            isf = False
        if not isf:
            continue
        try:
            with open(p, "rb") as f:
                files.append([p, md5(f.read(1 << 22))])
        except OSError:
            files.append([p, ""])
            unreadable.append(p)
    return files, unreadable


def corruption_cases(good_bytes, tier, rng):
    """Yield dict(label, shape, bytes, expect) ; expect in {'stale', 'any-but-crash'}."""
    good = json.loads(good_bytes)
    n = len(good_bytes)
    for i in range(n):
        yield {"label": f"truncate@{i}", "shape": "empty-file" if i == 0 else "truncated",
               "bytes": good_bytes[:i], "expect": "stale"}
    seen_cls = {}
    for p in paths(good):
        if not p:
            continue
        orig = getp(good, p)
        cls = pathclass(p)
        # every node in thorough; in quick one node per path class (plus all top-level fields)
        if tier == "quick" and len(p) > 1 and seen_cls.get(cls):
            continue
        seen_cls[cls] = True
        for r in REPS:
            if r == orig:
                continue
            typed = kind(r) != kind(orig) and not (kind(orig) == "string" and False)
            yield {"label": f"{'/'.join(map(str, p))}<-{json.dumps(r)}", "shape": "field:" + cls,
                   "bytes": json.dumps(setp(good, p, r), indent=4).encode(),
                   "expect": "stale" if typed else "any-but-crash", "kind": kind(r)}
        # a missing key is a change of the enclosing object
        if cls in ("imports[].filepath", "filepath") and (len(p) == 1 or p[1] == 0):
            for r in EXOTIC_PATHS:
                yield {"label": f"{'/'.join(map(str, p))}<-{json.dumps(r)[:40]}", "shape": "field:" + cls,
                       "bytes": json.dumps(setp(good, p, r), indent=4).encode(), "expect": "any-but-crash",
                       "kind": "string"}
        yield {"label": f"delete:{'/'.join(map(str, p))}", "shape": "field:" + pathclass(p[:-1]) if len(p) > 1 else "top-level-object",
               "bytes": json.dumps(delp(good, p), indent=4).encode(), "expect": "any-but-crash"}
    tops = [None, 0, 1, -1, 1.5, True, False, "s", "", "version", "xfilepathx", "results", [], [1], ["imports"],
            ["filepath", 1], [["version"]], {}, {"x": 1}, {"version": good["version"]}, float("nan"), float("inf"),
            {**good, "extra": 1},
            # nested wrong types inside otherwise minimal objects (shape named explicitly)
            ({"imports": [{"filepath": 1}]}, "field:imports[].filepath"), ({"imports": 1}, "field:imports"),
            ({"imports": ["filehash"]}, "field:imports[]"), ({"imports": [["filepath"]]}, "field:imports[]"),
            ({"results": {"f": {"gets": [], "sets": [], "dels": []}}}, "field:results.*"),
            {"results": {"f": {"gets": [], "sets": [], "dels": [], "calls": [], "more": 1}}}]
    for v in tops:
        shape = None
        if isinstance(v, tuple):
            v, shape = v
        wellformed_other = isinstance(v, dict)
        yield {"label": "top:" + json.dumps(v)[:60], "shape": shape or top_shape(v), "bytes": json.dumps(v).encode(),
               "expect": "any-but-crash" if wellformed_other else "stale"}
    raws = [(b" ", "whitespace-only"), (b"\n\n", "whitespace-only"), (b"\xff\xfe", "not-utf8"),
            (good_bytes[:40] + b"\xff" + good_bytes[40:], "not-utf8"), (b"\xef\xbb\xbf" + good_bytes, "utf8-bom"),
            (good_bytes + b"}", "trailing-garbage"), (good_bytes + good_bytes, "trailing-garbage"),
            (good_bytes.replace(b":", b"=", 1), "not-json"), (b"{'version': 'dev'}", "not-json"),
            (good_bytes[1:], "not-json"), (b"\x00" * 16, "not-json"),
            ("{\"version\": \"dév\"}".encode("latin-1"), "not-utf8"),
            (b"[" * 100000 + b"]" * 100000, "json-loads-raises"),
            (b'{"version": ' + b"9" * 5000 + b"}", "json-loads-raises")]
    for b, shape in raws:
        yield {"label": "raw:" + shape + ":" + b[:12].hex(), "shape": shape, "bytes": b, "expect": "stale"}
    if tier == "thorough":
        ps = [p for p in paths(good) if p]
        for _ in range(300):
            p1, p2 = rng.sample(ps, 2)
            try:
                dd = setp(setp(good, p1, rng.choice(REPS)), p2, rng.choice(REPS))
            except (KeyError, IndexError, TypeError):
                continue
            yield {"label": f"double:{p1}:{p2}", "shape": "double-mutation", "bytes": json.dumps(dd).encode(),
                   "expect": "correspondence-only"}


def make_cache_project(extra_functions=0):
    d = make_project("c19c_")
    tsrc = TARGET[2][0] + "".join(f"\n\ndef fn{i}(p{i}):\n    p{i}.attr{i} = p{i}.other{i}\n    return helper(p{i})\n"
                                  for i in range(extra_functions))
    (d / "target.py").write_text(tsrc)
    (d / "direct.py").write_text(DIRECT[0][0])
    (d / "trans.py").write_text(TRANS[0][0])
    r = cli(["-w", "all", "--cache-file", "cache.json", "-o", "silent", "target.py"], d)
    return d, r


def gate_in_process(d, blobs):
    """Run the real gate on every blob (in-process). Returns (facts, outcomes)."""
    from rattr._version import version
    from rattr.models.results import util as ru

    outs = []
    with impl.in_dir(str(d)):
        impl.reset_config(target=Path("target.py"), cache_file=Path("c.json"))
        facts = {"version": version, "args": ru.make_arguments_hash(), "plugins": ru.make_plugins_hash()}
        for b in blobs:
            Path("c.json").write_bytes(b)
            with impl.Tap():
                o = impl.outcome_of(ru.target_cache_file_is_up_to_date, Path("target.py"), Path("c.json"))
            if o[0] == "ok":
                outs.append({"verdict": "fresh" if o[1] is True else ("stale" if o[1] is False else f"other:{o[1]!r}")})
            elif o[0] == "fatal":
                outs.append({"verdict": "fatal"})
            else:
                outs.append({"verdict": "crash", "err": o[1]})
        Path("c.json").unlink(missing_ok=True)
    return facts, outs


def corruption_stream(res, tier, rng, model):
    d, r0 = make_cache_project(extra_functions=0 if tier == "quick" else 3)
    try:
        if r0["exit"] != 0 or r0["tb"]:
            res.internal_errors.append({"what": "could not create the reference cache file", "run": r0})
            return
        good_bytes = (d / "cache.json").read_bytes()
        good = json.loads(good_bytes)
        cases = list(corruption_cases(good_bytes, tier, rng))
        facts, outs = gate_in_process(d, [good_bytes] + [c["bytes"] for c in cases])
        if outs[0] != {"verdict": "fresh"}:
            res.internal_errors.append({"what": "in-process gate does not accept the cache the CLI wrote",
                                        "outcome": outs[0]})
            return
        outs = outs[1:]
        files = [["target.py", md5((d / "target.py").read_bytes())]]
        for i in good["imports"]:
            if os.path.isfile(i["filepath"]):
                files.append([i["filepath"], md5(Path(i["filepath"]).read_bytes())])
        xfiles, unreadable = path_facts(EXOTIC_PATHS)
        files += xfiles
        res.extra["unreadable_regular_files_probed"] = unreadable
        world = {"target": "target.py", "files": files, "unreadable": unreadable, "emptyHash": md5(b""), **facts}
        mouts = model.batch([("cache_gate", {"file": classify_bytes(c["bytes"]), "world": world}) for c in cases])
        for c, io, mo in zip(cases, outs, mouts):
            res.evaluations += 1
            case = {"stream": "corruption", "label": c["label"], "shape": c["shape"], "project_dir": str(d),
                    "bytes_hex": c["bytes"].hex() if len(c["bytes"]) < 4000 else None,
                    "truncate_at": len(c["bytes"]) if c["shape"] in ("truncated", "empty-file") else None}
            res.nontrivial.add(common.digest(c["bytes"].hex()))
            res.count("corruption:" + c["shape"].split(":")[0])
            res.count("gate:" + io["verdict"] + (":" + io["err"] if "err" in io else ""))
            if c["shape"].startswith("field:") and c["expect"] == "stale":
                res.sample({"case": case, "impl": io}, cap=3)
            # correspondence
            if "__error__" in mo:
                res.disagreements.append({"case": case, "impl": io, "model": mo})
            else:
                mm = {"verdict": mo["verdict"], **({"err": mo["err"]} if "err" in mo else {})}
                if mm != io:
                    res.disagreements.append({"case": case, "impl": io, "model": mm})
            # oracle (double mutations: every constituent single mutation is judged on its own above;
            # the combination is only compared with the model, which predicts the exact outcome)
            if c["expect"] == "correspondence-only":
                continue
            if io["verdict"] in ("crash", "fatal") or io["verdict"].startswith("other"):
                sig = f"cache-gate-crash:{io.get('err', io['verdict'])}:{c['shape']}"
                res.violations.append({"signature": sig, "case": case, "impl": io})
            elif io["verdict"] == "fresh" and c["expect"] == "stale":
                res.violations.append({"signature": f"corrupt-cache-trusted:{c['shape']}", "case": case, "impl": io})
            elif io["verdict"] == "fresh":
                res.count("value-level-mutation-trusted(undetectable)")
        # a sample through the real CLI (validates the in-process worker)
        idx = [i for i, c in enumerate(cases) if c["shape"] == "truncated"]
        pick = [idx[len(idx) // 7], idx[len(idx) // 2], idx[-1]] if idx else []
        want = ["imports/0/filepath<-\"/proc/self/mem\"", "top:null", "top:{\"imports\": [{\"filepath\": 1}]}", "imports<-{}", "raw:not-utf8", "truncate@0",
                "filepath<-null", "results<-[]"]
        for w in want:
            for i, c in enumerate(cases):
                if c["label"].startswith(w):
                    pick.append(i)
                    break

        def one(i):
            dd = make_project("c19s_")
            try:
                for fn in ("target.py", "direct.py", "trans.py"):
                    shutil.copy(d / fn, dd / fn)
                # same absolute import paths are required for the gate to compare the same files:
                # rewrite the project-dir prefix inside the blob
                blob = cases[i]["bytes"].replace(str(d).encode(), str(dd).encode())
                (dd / "cache.json").write_bytes(blob)
                st = stat_of(dd / "cache.json")
                r = cli(["-w", "all", "--cache-file", "cache.json", "-o", "silent", "target.py"], dd)
                return i, r, stat_of(dd / "cache.json") != st
            finally:
                shutil.rmtree(dd, ignore_errors=True)

        with cf.ThreadPoolExecutor(max_workers=8) as ex:
            for i, r, rewritten in ex.map(one, pick):
                res.evaluations += 1
                res.count("corruption-via-cli")
                io = outs[i]
                cli_v = ("crash:" + str(r["exc"])) if r["tb"] else ("fresh" if r["hit"] else "stale")
                inproc_v = ("crash:" + io["err"]) if io["verdict"] == "crash" else io["verdict"]
                if cli_v != inproc_v or (cli_v == "stale" and not (rewritten and r["exit"] == 0)):
                    res.internal_errors.append({"what": "in-process gate and CLI disagree on a corrupted cache",
                                                "label": cases[i]["label"], "cli": cli_v, "in_process": inproc_v,
                                                "rewritten": rewritten, "exit": r["exit"]})
    finally:
        shutil.rmtree(d, ignore_errors=True)


# ------------------------------------------------------------------ hash probe

def hash_probe_cases():
    yield from ((n, None) for n in (0, 1, BLOCK - 1, BLOCK, BLOCK + 1, 2 * BLOCK - 1, 2 * BLOCK, 2 * BLOCK + 1,
                                    3 * BLOCK + 17))
    yield from ((n, 8) for n in range(0, 42))


def hash_probe_one(d, n, blocksize):
    from rattr.models.util.hash import hash_file_content

    # the last byte differs from any byte before it, so every truncated digest is wrong
    content = (b"0123456789abcdef" * (n // 16 + 1))[:max(n - 1, 0)] + (b"Z" if n else b"")
    f = Path(d) / "blob.bin"
    f.write_bytes(content)
    got = impl.outcome_of(hash_file_content, f) if blocksize is None else \
        impl.outcome_of(hash_file_content, f, blocksize=blocksize)
    return got, md5(content)


def hash_probe(res):
    """`hash_file_content` must be md5 of the WHOLE file (the model's 'hash = content' assumption):
    sizes around k * blocksize +- 1 with the default block size, and every size 0..41 with blocksize 8."""
    d = tempfile.mkdtemp(prefix="c19p_", dir=TMPROOT)
    try:
        for n, bs in hash_probe_cases():
            res.evaluations += 1
            res.count("hash-probe")
            got, want = hash_probe_one(d, n, bs)
            if got != ("ok", want):
                k = "exact-multiple" if n % (bs or BLOCK) == 0 else "not-a-multiple"
                where = "first-block-only" if n > (bs or BLOCK) else "within-first-block"
                res.violations.append({"signature": f"file-hash-not-md5-of-whole-content:{where}",
                                       "case": {"stream": "hash-probe", "size": n, "blocksize": bs, "default_blocksize": BLOCK,
                                                "size_class": k},
                                       "impl": list(got)[:2], "expected": want})
    finally:
        shutil.rmtree(d, ignore_errors=True)


# ------------------------------------------------------------------ run

def run(tier, seed, build):
    res = common.Result(PID)
    res.rule = ("histories: op sequences over {editTarget, editDirect, editTransitive, changeOption, runWithCache, "
                "forceRefresh} (content / option variants as parameters) executed through the real CLI, closed by a "
                "run; non-trivial = distinct history with >= 1 run with a cache file, or distinct corrupted cache "
                "content; evaluations = CLI runs with a cache file + corrupted contents given to the gate")
    rng = random.Random(seed)
    from rattr._version import version

    hists = [close(h) for h in CORPUS]
    if tier == "quick":
        hists += [random_history(rng, 6) for _ in range(50)] + [random_history(rng, 9) for _ in range(20)]
        hists += exhaustive_histories(2)
        res.extra["exhaustive_history_length"] = 2
    else:
        ex = exhaustive_histories(4)
        hists += ex
        hists += [random_history(rng, 8) for _ in range(300)]
        res.extra["exhaustive_history_length"] = 4
        res.extra["exhaustive"] = True
    # dedupe
    uniq, seen = [], set()
    for h in hists:
        k = json.dumps(h)
        if k not in seen:
            seen.add(k)
            uniq.append(h)
    hists = uniq
    res.extra["histories"] = len(hists)

    with cf.ThreadPoolExecutor(max_workers=16) as ex:
        all_recs = list(ex.map(run_history, hists))

    # arguments-hash <-> hashed-option-tuple mapping observed on the real documents
    key_to_hash, hash_to_key = {}, {}
    for recs in all_recs:
        for rec in recs:
            if "run" not in rec:
                continue
            k = optkey(OPTIONS[rec["state"]["opt"]])
            for text in (strip_nl(rec["fresh"]["out"]) if rec["fresh"]["exit"] == 0 and not rec["fresh"]["tb"] else None,):
                if text:
                    try:
                        h = json.loads(text)["arguments_hash"]
                    except Exception:
                        continue
                    key_to_hash.setdefault(k, set()).add(h)
                    hash_to_key.setdefault(h, set()).add(k)
    bad_map = {k: sorted(v) for k, v in key_to_hash.items() if len(v) > 1}
    bad_map.update({h: sorted(v) for h, v in hash_to_key.items() if len(v) > 1})
    if bad_map:
        res.violations.append({"signature": "other:arguments-hash-not-a-function-of-the-hashed-options",
                               "case": bad_map})
    argmap = {h: next(iter(ks)) for h, ks in hash_to_key.items()}

    model = common.Model()
    payloads = [history_payload(h, recs, version) for h, recs in zip(hists, all_recs)]
    mouts = model.batch([("cache_history", p) for p in payloads])
    plugins_seen = set()

    for h, recs, pay, mo in zip(hists, all_recs, payloads, mouts):
        case = {"stream": "history", "ops": h}
        runs = [r for r in recs if "run" in r]
        if runs:
            res.nontrivial.add(common.digest(h))
        skip = False
        for row in pay["analysis"]:
            if "__inconsistent__" in row:
                res.violations.append({"signature": "other:from-scratch-run-not-deterministic", "case": case,
                                       "detail": row})
        # oracle
        for i, rec in enumerate(recs):
            if "run" not in rec:
                continue
            res.evaluations += 1
            io = impl_out(rec)
            res.count("run:" + io.split(":")[0])
            res.count("opt:" + " ".join(OPTIONS[rec["state"]["opt"]]["args"]) if OPTIONS[rec["state"]["opt"]]["args"] else "opt:default")
            for sig, detail in judge_run(rec):
                if sig == "__skip__":
                    skip = True
                    res.skipped_outside_fragment += 1
                    continue
                res.violations.append({"signature": sig, "case": {**case, "step": i, "state": rec["state"]},
                                       "detail": detail,
                                       "impl": {"out": io, "exit": rec["run"]["exit"], "stderr_tail": rec["run"]["err_tail"],
                                                "fresh_exit": rec["fresh"]["exit"]}})
        for op in h:
            res.count("op:" + op[0])
        res.sample({"case": case, "impl": [impl_out(r) if "run" in r else "-" for r in recs]}, cap=6)
        if skip:
            continue
        # correspondence with the Lean state machine
        if "__error__" in mo:
            res.disagreements.append({"case": case, "model": mo})
            continue
        for i, (rec, ms) in enumerate(zip(recs, mo["steps"])):
            if "run" not in rec:
                continue
            io = impl_out(rec)
            d = rec["dir"]
            real = real_disk_projection(rec["after"], d, version, argmap, plugins_seen)
            mdisk = ms["disk"]
            if isinstance(mdisk, dict):
                mdisk = {**mdisk, "imports": sorted(mdisk["imports"])}
            if ms.get("missingRow") or io != ms["out"] or real != mdisk:
                res.disagreements.append({"case": {**case, "step": i}, "impl": {"out": io, "disk": real},
                                          "model": {"out": ms["out"], "disk": mdisk,
                                                    "missingRow": ms.get("missingRow")}})
                break
    plugins_seen.discard(None)
    if len(plugins_seen) > 1:
        res.violations.append({"signature": "other:plugins-hash-not-constant", "case": sorted(plugins_seen)})

    corruption_stream(res, tier, rng, model)
    hash_probe(res)
    res.extra["hash_block_size"] = BLOCK

    res.assumptions = [
        "frame hypothesis (Lean: Frame): results and recorded origins depend only on target path, hashed options, version, plugins and the content of the files the analysis reads; every file read is the target or a recorded origin — tested end-to-end by the from-scratch oracle, not proved",
        "md5 treated as injective; directory structure fixed (content edits only)",
        "[interp] 'a fresh run would give the cached results' includes 'a fresh run would succeed': a hit under --threshold/--strict where the from-scratch run is fatal is a violation",
        "[interp] 'corrupted or of the wrong shape' = not UTF-8 / not JSON / a JSON value whose fields do not have the declared JSON types; same-type value changes (undetectable without a checksum) are only required not to crash",
        "PYTHONHASHSEED=0 for every CLI run (hash-seed dependence is C05/C18's subject)",
    ]
    return res


def replay(path):
    j = json.load(open(path))
    print(json.dumps(j, indent=1)[:6000])
    case = j.get("case") or {}
    if case.get("stream") == "history":
        recs = run_history(case["ops"])
        for r in recs:
            if "run" in r:
                print("op", r["op"], "->", impl_out(r), "exit", r["run"]["exit"], "| from-scratch exit", r["fresh"]["exit"],
                      "| oracle:", judge_run(r))
            else:
                print("op", r["op"])
        mo = common.Model().batch([("cache_history", history_payload(case["ops"], recs, "?"))])[0]
        print("model:", [s["out"] for s in mo.get("steps", [])] if isinstance(mo, dict) and "steps" in mo else mo)
    elif case.get("stream") == "hash-probe":
        d = tempfile.mkdtemp(prefix="c19p_", dir=TMPROOT)
        try:
            got, want = hash_probe_one(d, case["size"], case["blocksize"])
            print("hash_file_content:", got, "| md5 of the whole content:", want)
        finally:
            shutil.rmtree(d, ignore_errors=True)
    elif case.get("stream") == "corruption":
        d, _ = make_cache_project()
        try:
            good = (d / "cache.json").read_bytes()
            if case.get("truncate_at") is not None:
                b = good[:case["truncate_at"]]
            elif case.get("bytes_hex") is not None:
                b = bytes.fromhex(case["bytes_hex"]).replace(case.get("project_dir", "\0").encode(), str(d).encode())
            else:
                print("blob not stored; label:", case.get("label"))
                return 0
            print("impl:", gate_in_process(d, [b])[1][0], "| file content:", classify_bytes(b)["k"])
        finally:
            shutil.rmtree(d, ignore_errors=True)
    return 0

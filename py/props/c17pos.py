"""C17, POSITIONS stage: where inside a statement a binding / an unbound load may sit.

The body generator (props/bodygen.py) draws a walrus with probability ~1/43 per expression node and an
undefined name with probability 0.03 per variable, so "a walrus as the BASE of a name chain" or "an
undefined name in a KEYWORD argument of a stored class instantiation" turn up a few times per run and are
then almost never followed by the use / the must-warn that makes the oracle speak. This stage enumerates
the product systematically (small-scope, not random in WHAT exists, only in which part of the product a
quick run takes):

  (W) walrus-position forms (`W`, `W.p`, `W[0]`, `*W`, `W()`, `W.m()`, argument / keyword / `**` operand of
      every call kind, operand of every operator, subscript index / slice, f-string value / spec,
      display element / key / value, comprehension condition / element / first iterable, lambda body /
      default, await / yield, getattr-family / sorted / defaultdict arguments, nested walrus ...)
      x statement contexts (expression statement, every assignment kind, return, if / while / for /
      with / match header, guard, assert, raise, del, try, argument of a stored class instantiation ...)
      x uses of the bound name (later operand of the same statement, body of the compound statement,
      next statement, after the compound statement);
  (K) call kinds (function, async function, named lambda, class with initialiser, bare class, module /
      local namedtuple, method, unknown, builtin, static method, module function, call on call, item
      call, method on call, max, dict) x argument layouts (undefined name / walrus / deleted name / bound
      control in positional, keyword, second keyword, `*`, `**`, keyword-after-`**` slots, nested inside
      the slot's expression) x statement contexts (one-to-one assignment to a name / attribute / item,
      annotated, augmented, walrus, returned bare / in a list / in a dict, discarded, nested argument,
      chained / tuple assignment, attribute of the result, for / with / if header ...).

Every function goes through the real FunctionAnalyser and the Lean model (ordered diagnostics must agree)
and is judged by c17.judge_case (the straight-line binder + the sub-statement order of props/c17order.py).
A sample of the functions that end normally is then analysed as FILES: by the real CLI and in-process
(`rattr -w all target.py`), in the target and in a module the target imports (followed import), and the
warnings located in each function are judged by the same oracle.
"""
from __future__ import annotations

import ast
import re
import shutil
import tempfile
from pathlib import Path

from props import visitlib as vl
from props.bodygen import PREAMBLE

# ------------------------------------------------------------------------------------ (W) walrus forms

WFORMS = [
    ("bare", "@W"),
    ("attr-base", "@W.p1"),
    ("item-base", "@W[0]"),
    ("item-base-var-index", "@W[b.i1]"),
    ("starred-base-in-call", "print(*@W)"),
    ("starred-base-in-list", "[*@W, b.q1]"),
    ("starred-base-in-tuple", "(*@W, b.q1)"),
    ("attr-attr-base", "@W.p1.p2"),
    ("item-attr-base", "@W[0].p1"),
    ("attr-item-base", "@W.p1[0]"),
    ("call-base", "@W()"),
    ("call-base-args", "@W(b.q1)"),
    ("method-base", "@W.m1()"),
    ("method-base-args", "@W.m1(b.q1)"),
    ("method-result-attr", "@W.m1().p1"),
    ("arg-func", "helper(@W)"),
    ("arg-func-2", "helper(b.q1, @W)"),
    ("arg-builtin", "print(@W, b.q1)"),
    ("arg-method", "b.m1(@W)"),
    ("arg-unknown", "unknown_fn(@W)"),
    ("arg-lam", "lam(@W)"),
    ("arg-class", "Cls(@W, b.q1)"),
    ("arg-namedtuple", "NT(@W, b.q1)"),
    ("arg-static", "WithStatic.sm(@W)"),
    ("arg-attr-base", "helper(@W.p1)"),
    ("arg-item-base", "helper(@W[0])"),
    ("arg-nested", "helper(print(@W))"),
    ("kw-func", "helper(z=@W)"),
    ("kw-func-2", "helper(b.q1, w=@W)"),
    ("kw-method", "b.m1(k=@W)"),
    ("kw-class", "Cls(b.q1, k=@W)"),
    ("kw-namedtuple", "NT(b.q1, v=@W)"),
    ("kw-builtin", "print(b.q1, end=@W)"),
    ("kw-attr-base", "helper(z=@W.p1)"),
    ("kw-unknown", "unknown_fn(k=@W)"),
    ("kw-dict", "dict(k=@W)"),
    ("kw-static", "WithStatic.sm(v=@W)"),
    ("dstar-func", "helper(**@W)"),
    ("dstar-then-kw", "helper(**b.q1, w=@W)"),
    ("dstar-dict", "{**@W}"),
    ("dstar-class", "Cls(**@W)"),
    ("star-func", "helper(*@W)"),
    ("star-class", "Cls(*@W)"),
    ("binop-left", "(@W + b.q1)"),
    ("binop-right", "(b.q1 - @W)"),
    ("boolop-first", "(@W and b.q1)"),
    ("boolop-later", "(b.q1 or @W)"),
    ("compare-left", "(@W is not None)"),
    ("compare-right", "(b.q1 in @W)"),
    ("unary", "(not @W)"),
    ("ifexp-test", "(b.q1 if @W else b.q2)"),
    ("ifexp-body", "(@W if b.q1 else b.q2)"),
    ("ifexp-orelse", "(b.q1 if b.q2 else @W)"),
    ("index", "b[@W]"),
    ("slice-lower", "b[@W:]"),
    ("slice-upper", "b.q1[:@W]"),
    ("index-of-attr", "b.q1[@W].p1"),
    ("fstring", 'f"{@W}"'),
    ("fstring-attr-base", 'f"{@W.p1}"'),
    ("fstring-spec", 'f"{b.q1:{@W}}"'),
    ("fstring-conv", 'f"{@W!r:>4}"'),
    ("list-elt", "[@W, b.q1]"),
    ("tuple-elt", "(b.q1, @W)"),
    ("set-elt", "{@W, b.q1}"),
    ("dict-key", "{@W: b.q1}"),
    ("dict-value", "{b.q1: @W}"),
    ("comp-cond", "[t.p1 for t in b.q1 if @W]"),
    ("comp-cond-attr-base", "[t.p1 for t in b.q1 if @W.p2]"),
    ("comp-elt", "[@W for t in b.q1]"),
    ("comp-first-iter", "[t.p1 for t in @W]"),
    ("comp-iter-attr-base", "[t.p1 for t in @W.p2]"),
    ("genexp-cond", "any(t.p1 for t in b.q1 if @W)"),
    ("dictcomp-value", "{t: @W for t in b.q1}"),
    ("setcomp-cond", "{t for t in b.q1 if @W[0]}"),
    ("lambda-body", "(lambda: @W)"),
    ("lambda-default", "(lambda q=@W: q)"),
    ("await", "(await @W)"),
    ("await-attr-base", "(await @W.p1)"),
    ("yield", "(yield @W)"),
    ("getattr-obj", "getattr(@W, 'k1')"),
    ("getattr-obj-attr-base", "getattr(@W.p1, 'k1')"),
    ("hasattr-obj", "hasattr(@W, 'k1')"),
    ("setattr-value", "setattr(b, 'k1', @W)"),
    ("getattr-default", "getattr(b, 'k1', @W)"),
    ("sorted-arg", "sorted(@W)"),
    ("sorted-arg-attr-base", "sorted(@W.p1)"),
    ("sorted-key", "sorted(b.q1, key=@W)"),
    ("sorted-reverse", "sorted(b.q1, reverse=@W)"),
    ("defaultdict-factory", "defaultdict(@W)"),
    ("defaultdict-lambda", "defaultdict(lambda: @W)"),
    ("callcall-inner-arg", "helper(@W)(b.q1)"),
    ("callcall-outer-arg", "helper(b.q1)(@W)"),
    ("subcall-arg", "b[0](@W)"),
    ("walrus-in-walrus", "(y1 := @W)"),
    ("walrus-attr-base-in-walrus", "(y1 := @W.p1)"),
    ("walrus-item-base-in-walrus", "(y1 := @W[0])"),
]

WSOURCES = ["a.v1", "a", "a.mk()", "a[0]", "Cls(a.v1)", "helper(a)"]

# statement contexts: lines with E (the expression), BODY / BODY2 (uses inside the compound statement)
WCONTEXTS = [
    ("expr", ["@E"]),
    ("assign", ["r1 = @E"]),
    ("attr-assign", ["b.s1 = @E"]),
    ("item-assign", ["b[0] = @E"]),
    ("ann-assign", ["r1: int = @E"]),
    ("aug-assign", ["b.s1 += @E"]),
    ("tuple-assign", ["r1, r2 = @E, b.q9"]),
    ("chained-assign", ["r1 = r2 = @E"]),
    ("return", ["return @E"]),
    ("return-tuple", ["return @E, b.q9"]),
    ("return-dict", ["return {'k': @E}"]),
    ("if-test", ["if @E:", "    @BODY", "else:", "    @BODY2"]),
    ("elif-test", ["if b.q9:", "    pass", "elif @E:", "    @BODY"]),
    ("while-test", ["while @E:", "    @BODY", "    break"]),
    ("for-iter", ["for t1 in @E:", "    @BODY", "else:", "    @BODY2"]),
    ("for-iter-attr-target", ["for b.s1 in @E:", "    @BODY"]),
    ("async-for-iter", ["async for t1 in @E:", "    @BODY"]),
    ("with-item", ["with @E as c1:", "    @BODY"]),
    ("with-item-no-target", ["with @E:", "    @BODY"]),
    ("with-second-item", ["with b.q9 as c1, @E:", "    @BODY"]),
    ("with-first-item-used-in-second", ["with @E as c1, @X.u0:", "    @BODY"]),
    ("async-with-item", ["async with @E as c1:", "    @BODY"]),
    ("assert-test", ["assert @E, b.q9"]),
    ("assert-msg", ["assert b.q9, @E"]),
    ("raise", ["raise @E"]),
    ("match-subject", ["match @E:", "    case 1:", "        @BODY", "    case _:", "        @BODY2"]),
    ("match-guard", ["match b.q9:", "    case 1 if @E:", "        @BODY", "    case _:", "        @BODY2"]),
    ("del-index", ["del b[@E]"]),
    ("try-body", ["try:", "    @E", "except KeyError:", "    @BODY", "finally:", "    @BODY2"]),
    ("nested-if-body", ["if b.q9:", "    @E", "    @BODY"]),
    ("class-assign-arg", ["inst1 = Cls(@E, k=b.q9)"]),
    ("class-assign-kw", ["inst1 = Cls(b.q9, k=@E)"]),
    ("class-assign-attr-target-kw", ["b.inst1 = Cls(b.q9, k=@E)"]),
    ("namedtuple-assign-kw", ["inst1 = NT(b.q9, v=@E)"]),
    ("class-return-kw", ["return Cls(b.q9, k=@E)"]),
    ("class-discarded-kw", ["Cls(b.q9, k=@E)"]),
    ("same-tuple", ["r1 = (@E, @X.u0)"]),
    ("same-call", ["helper(@E, w=@X.u0)"]),
    ("same-call-kw-first", ["helper(z=@E, w=@X.u0)"]),
    ("same-class-assign", ["inst1 = Cls(@E, k=@X.u0)"]),
    ("same-boolop", ["@E and @X.u0"]),
    ("same-binop", ["r1 = @E + @X.u0"]),
    ("same-compare", ["r1 = @E < @X.u0 < b.q9"]),
    ("same-dict-value-then-key", ["r1 = {b.q9: @E, @X.u0: 1}"]),
    ("same-list", ["r1 = [@E, @X.u0, @X]"]),
    ("same-fstring", ['r1 = f"{@E}{@X.u0}"']),
    ("same-subscript-index", ["r1 = b[@E, @X.u0]"]),
    ("same-ifexp-test-then-arm", ["r1 = (@X.u0 if @E else b.q9)"]),
    ("same-return-tuple", ["return @E, @X.u0"]),
    ("same-keyword-then-star", ["helper(w=@E, *@X.u0)"]),
    ("same-target-index", ["b[@X.u0] = @E"]),
]

AFTER_USES = ["@X.u5", "print(@X)", "@X[0]", "@X.mu()", "helper(w=@X.u6)", "r9 = @X", "del @X.u7"]


def build_function(name, lines):
    src = "\n".join(lines)
    is_async = "await " in src or "async " in src
    return f"{'async ' if is_async else ''}def {name}(a, b):\n" + "\n".join("    " + l for l in lines) + "\n"


def compiles(src):
    try:
        compile(src, "<c17pos>", "exec")
        return True
    except SyntaxError:
        return False


def wfunction(i, form, ctx, wsrc, after):
    x = f"n{i}"
    w = f"({x} := {wsrc})"
    e = form[1].replace("@W", w)
    lines = [l.replace("@BODY2", f"{x}.u3").replace("@BODY", f"{x}.u2").replace("@E", e).replace("@X", x) for l in ctx[1]]
    lines.append(after.replace("@X", x))     # after a return / raise: read straight-line (unreachable at run time)
    return build_function(f"w{i}", lines)


def walrus_functions(rng, n_random, core=1.0):
    """the core (every form in the plain contexts, every context with the chain-base forms; a quick run takes
    the fraction `core` of it, drawn by `rng`) + `n_random` random (form, context, source, use) combinations."""
    core_ctx = [c for c in WCONTEXTS if c[0] in ("expr", "assign", "if-test", "same-call", "class-assign-kw")]
    core_forms = [f for f in WFORMS if f[0] in ("bare", "attr-base", "item-base", "starred-base-in-call", "kw-func", "kw-class")]
    combos = []
    for f in WFORMS:
        for c in core_ctx:
            combos.append((f, c))
    for c in WCONTEXTS:
        for f in core_forms:
            if (f, c) not in combos:
                combos.append((f, c))
    if core < 1.0:
        combos = rng.sample(combos, int(len(combos) * core))
    for _ in range(n_random):
        combos.append((rng.choice(WFORMS), rng.choice(WCONTEXTS)))
    out = []
    for i, (f, c) in enumerate(combos):
        src = wfunction(i, f, c, rng.choice(WSOURCES), rng.choice(AFTER_USES))
        if compiles(src):
            out.append((f"w{i}", src, {"family": "walrus", "form": f[0], "context": c[0]}))
    return out


# ------------------------------------------------------------------------------------ (K) call kinds

CALLS = [
    ("func", "helper(@ARGS)", "w"),
    ("async-func", "ahelper(@ARGS)", "z"),
    ("named-lambda", "lam(@ARGS)", "q"),
    ("class", "Cls(@ARGS)", "k"),
    ("bare-class", "Bare(@ARGS)", "k"),
    ("namedtuple", "NT(@ARGS)", "v"),
    ("local-namedtuple", "P1(@ARGS)", "y"),
    ("method", "a.m1(@ARGS)", "k"),
    ("unknown", "unknown_fn(@ARGS)", "k"),
    ("builtin", "print(@ARGS)", "end"),
    ("static-method", "WithStatic.sm(@ARGS)", "v"),
    ("module-func", "os.path.join(@ARGS)", "k"),
    ("call-on-call", "helper(a.q8)(@ARGS)", "k"),
    ("item-call", "a[0](@ARGS)", "k"),
    ("method-on-call", "a.m1().m2(@ARGS)", "k"),
    ("max", "max(@ARGS)", "key"),
    ("dict", "dict(@ARGS)", "k"),
    ("param-call", "b(@ARGS)", "k"),
]

# layouts: (id, args with K = the call's keyword name, pre-lines, post-lines); U<i> = undefined name,
# V<i> = walrus-bound name, D = deleted parameter
LAYOUTS = [
    ("undef-positional", "@U1.p1", [], []),
    ("undef-second-positional", "a.q1, @U1.p1", [], []),
    ("undef-keyword", "a.q1, @K=@U1.p1", [], []),
    ("undef-keyword-only", "@K=@U1.p1", [], []),
    ("undef-second-keyword", "a.q1, @K=a.q2, k2=@U1.p1", [], []),
    ("undef-star", "*@U1.p1", [], []),
    ("undef-double-star", "**@U1.p1", [], []),
    ("undef-keyword-after-double-star", "**a.q1, @K=@U1.p1", [], []),
    ("undef-keyword-bare-name", "@K=@U1", [], []),
    ("undef-keyword-item", "@K=@U1[0]", [], []),
    ("undef-keyword-method-call", "@K=@U1.m9()", [], []),
    ("undef-keyword-nested-call", "@K=print(@U1.p1)", [], []),
    ("undef-keyword-list", "@K=[a.q1, @U1.p1]", [], []),
    ("undef-keyword-binop", "@K=a.q1 + @U1.p1", [], []),
    ("undef-keyword-ifexp", "@K=(@U1.p1 if a.q1 else @U2.p2)", [], []),
    ("undef-keyword-fstring", "@K=f'{@U1.p1}'", [], []),
    ("undef-keyword-nested-keyword", "@K=helper(a.q1, w=@U1.p1)", [], []),
    ("undef-keyword-class-keyword", "@K=Cls(a.q1, k=@U1.p1)", [], []),
    ("undef-both", "@U1.p1, @K=@U2.p2", [], []),
    ("walrus-positional", "(@V1 := a.v1)", [], ["@V1.u1"]),
    ("walrus-keyword", "a.q1, @K=(@V1 := a.v1)", [], ["@V1.u1"]),
    ("walrus-keyword-only", "@K=(@V1 := a.v1)", [], ["@V1.u1", "print(@V1)"]),
    ("walrus-second-keyword", "@K=a.q1, k2=(@V1 := a.v1)", [], ["@V1.u1"]),
    ("walrus-keyword-attr-base", "@K=(@V1 := a.v1).p1", [], ["@V1.u1"]),
    ("walrus-keyword-item-base", "@K=(@V1 := a.v1)[0]", [], ["@V1.u1"]),
    ("walrus-keyword-nested", "@K=print((@V1 := a.v1))", [], ["@V1.u1"]),
    ("walrus-keyword-nested-keyword", "@K=helper(w=(@V1 := a.v1))", [], ["@V1.u1"]),
    ("walrus-star", "*(@V1 := a.v1)", [], ["@V1.u1"]),
    ("walrus-double-star", "**(@V1 := a.v1)", [], ["@V1.u1"]),
    ("walrus-keyword-after-double-star", "**a.q1, @K=(@V1 := a.v1)", [], ["@V1.u1"]),
    ("walrus-positional-used-in-keyword", "(@V1 := a.v1), @K=@V1.u0", [], ["@V1.u1"]),
    ("walrus-keyword-used-in-next-keyword", "@K=(@V1 := a.v1), k2=@V1.u0", [], ["@V1.u1"]),
    ("walrus-keyword-and-undef", "@U1.p1, @K=(@V1 := a.v1), k2=@U2.p2", [], ["@V1.u1"]),
    ("deleted-positional", "b.p1", ["del b"], []),
    ("deleted-keyword", "a.q1, @K=b.p1", ["del b"], []),
    ("deleted-double-star", "**b", ["del b"], []),
    ("bound-control", "a.q1, @K=a.q2, **b", [], ["b.u1"]),
    ("local-control", "loc1.p1, @K=loc1", ["loc1 = a.v1"], ["loc1.u1"]),
]

KCONTEXTS = [
    ("assign", ["t1 = @C"]),
    ("attr-assign", ["a.s1 = @C"]),
    ("item-assign", ["a[0] = @C"]),
    ("ann-assign", ["t1: int = @C"]),
    ("ann-attr-assign", ["a.s1: int = @C"]),
    ("aug-assign", ["a.s1 += @C"]),
    ("walrus-assign", ["(t1 := @C)"]),
    ("walrus-assign-in-if", ["if (t1 := @C):", "    pass"]),
    ("walrus-assign-as-arg", ["print((t1 := @C))"]),
    ("return", ["return @C"]),
    ("return-list", ["return [@C, a.q7]"]),
    ("return-dict", ["return {'k': @C}"]),
    ("return-tuple", ["return @C, a.q7"]),
    ("discarded", ["@C"]),
    ("nested-arg", ["helper(@C)"]),
    ("nested-keyword", ["helper(w=@C)"]),
    ("chained-assign", ["t1 = t2 = @C"]),
    ("tuple-assign", ["t1, t2 = @C, a.q7"]),
    ("attr-of-result", ["t1 = @C.p9"]),
    ("in-list", ["t1 = [@C]"]),
    ("for-iter", ["for t1 in @C:", "    pass"]),
    ("with-item", ["with @C as t1:", "    pass"]),
    ("if-test", ["if @C:", "    pass"]),
    ("assert", ["assert @C"]),
    ("await-assign", ["t1 = await @C"]),
    ("yield-assign", ["t1 = yield @C"]),
    ("in-try", ["try:", "    t1 = @C", "finally:", "    pass"]),
    ("in-loop-body", ["for t9 in a.q7:", "    t1 = @C"]),
]


def kfunction(i, call, layout, ctx):
    u = [f"undef{i}_1", f"undef{i}_2"]
    v = f"n{i}"
    args = layout[1].replace("@K", call[2]).replace("@U1", u[0]).replace("@U2", u[1]).replace("@V1", v)
    c = call[1].replace("@ARGS", args)
    lines = []
    if call[0] == "local-namedtuple":
        lines.append("P1 = namedtuple('P1', ['x', 'y'])")
    lines += list(layout[2])
    lines += [l.replace("@C", c) for l in ctx[1]]
    lines += [p.replace("@V1", v) for p in layout[3]]
    return build_function(f"k{i}", lines)


def call_functions(rng, n_random, core=1.0):
    core_calls = [c for c in CALLS if c[0] in ("func", "class", "namedtuple", "method")]
    core_ctx = [c for c in KCONTEXTS if c[0] in ("assign", "discarded", "return", "attr-assign", "ann-assign", "walrus-assign")]
    combos = []
    for lay in LAYOUTS:
        for c in core_calls:
            for x in core_ctx:
                combos.append((c, lay, x))
    cls = next(c for c in CALLS if c[0] == "class")
    for lay in LAYOUTS:
        for x in KCONTEXTS:
            if (cls, lay, x) not in combos:
                combos.append((cls, lay, x))
    for c in CALLS:
        for lay in LAYOUTS:
            if (c, lay, KCONTEXTS[0]) not in combos:
                combos.append((c, lay, KCONTEXTS[0]))
    if core < 1.0:
        combos = rng.sample(combos, int(len(combos) * core))
    core = len(combos)
    for _ in range(n_random):
        combos.append((rng.choice(CALLS), rng.choice(LAYOUTS), rng.choice(KCONTEXTS)))
    out = []
    for i, (c, lay, x) in enumerate(combos):
        src = kfunction(i, c, lay, x)
        if compiles(src):
            out.append((f"k{i}", src, {"family": "call", "call": c[0], "layout": lay[0], "context": x[0], "core": i < core}))
    return out


# ------------------------------------------------------------------------------------ running


def chunked(fns, size):
    for i in range(0, len(fns), size):
        yield fns[i:i + size]


def run_functions(fns, model, chunk=30):
    """[(name, src, meta)] -> visitlib Cases (+ .meta): real FunctionAnalyser vs Lean model, module by module."""
    cases, reqs = [], []
    for part in chunked(fns, chunk):
        src = PREAMBLE + "\n".join(s for _, s, _ in part)
        tree, ctx = vl.prepare(src)
        defs = {n.name: n for n in tree.body if isinstance(n, (ast.FunctionDef, ast.AsyncFunctionDef))}
        for name, _s, meta in part:
            fn = defs[name]
            c = vl.Case()
            c.module_src, c.name, c.fn = src, name, fn
            c.fn_src = ast.unparse(fn)
            reqs.append(vl.model_request(fn, ctx))
            c.im, c.events = vl.analyse_function(fn, ctx)
            cases.append((c, meta))
    outs = model.batch(reqs)
    for (c, _m), mo in zip(cases, outs):
        c.mo = mo
        c.diff = "model error: " + str(mo["__error__"]) if "__error__" in mo else vl.compare(c.im, mo)
    return cases


class FileCase:
    """a function as analysed inside a whole-file run: same attributes the judge reads."""
    __slots__ = ("module_src", "name", "fn", "fn_src", "im", "events", "mo", "diff", "file", "via")


def file_project(target_fns, followed_fns, style):
    """files of a two-module project: target.py (imports the other one) + followed.py."""
    imp = {"from-star": "from followed import *\n", "import": "import followed\n", "from-names": "from followed import " +
           ", ".join(n for n, _, _ in followed_fns[:3]) + "\n"}[style]
    use = "\n\ndef uses_followed(a, b):\n    return " + (f"followed.{followed_fns[0][0]}(a, b)" if style == "import" else f"{followed_fns[0][0]}(a, b)") + "\n"
    return {"target.py": imp + PREAMBLE + "\n".join(s for _, s, _ in target_fns) + use,
            "followed.py": PREAMBLE + "\n".join(s for _, s, _ in followed_fns)}


def run_files(files, level, via):
    """run rattr on target.py of a fresh project; returns {'outcome', 'warnings': [(file, line, col, name)]}."""
    from props import c17opts
    tmp = Path(tempfile.mkdtemp(prefix="c17pos_"))
    try:
        for rel, src in files.items():
            (tmp / rel).write_text(src)
        argv = ["-w", "all", "-o", "silent", "-f", str(level), "target.py"]
        run = c17opts.run_cli(tmp, argv) if via == "cli" else c17opts.run_inprocess(tmp, argv)
        run["argv"] = argv
        return run
    finally:
        shutil.rmtree(tmp, ignore_errors=True)


def file_cases(files, run, via):
    """one FileCase per function of the project's files, with the warnings located inside it."""
    out = []
    for rel, src in files.items():
        tree = ast.parse(src)
        ws = [(ln, col, name) for f, ln, col, name in run["warnings"] if Path(f).name == rel]
        for fn in tree.body:
            if not isinstance(fn, (ast.FunctionDef, ast.AsyncFunctionDef)) or not re.match(r"^[wk]\d+$", fn.name):
                continue
            c = FileCase()
            c.module_src, c.name, c.fn, c.fn_src = src, fn.name, fn, ast.unparse(fn)
            c.events = [{"message": f"'{name}' potentially undefined", "line": ln, "col": col}
                        for ln, col, name in sorted(set(ws)) if fn.lineno <= ln <= fn.end_lineno]
            c.im = {"outcome": run["outcome"]}
            c.mo, c.diff, c.file, c.via = None, None, rel, via
            out.append(c)
    return out

"""C14, multi-file stage: result generation must leave EVERY FileIr alone — the target's and the live
FileIr of every followed import (`import_irs`).

Generated PROJECTS (target.py + modules ha, hb, deco + package pk/{__init__,s}.py) in which calls reach
every branch of `find_call_target_and_ir` / `resolve_function` / `resolve_class_init` / `resolve_import`,
both from the target file and from inside a followed import:

  callee kinds   plain function · @rattr_ignore'd function · function excluded by --exclude · function with
                 @rattr_results (with and without declared calls) · class with __init__ · class without
                 __init__ · @rattr_ignore'd class · static method · lambda · module-level variable ·
                 undefined name · method on a member · caller function (has calls of its own) ·
                 stdlib module (not followed) · module excluded by --exclude-import · local callee
  call forms     from M import f · from M import f as g · import M; M.f · import M as m; m.f ·
                 re-export (from R import f where R imports f from M, chains of 2) · from M import *
  configurations follow-imports level 1 (default), level 0 (nothing followed), an excluded import pattern

Observation (in-process, the real `parse_and_analyse_file` + `generate_results_from_ir`): the serialised IR
document `serialise_irs(target, import_irs)` AND a deep structural snapshot (key list, symbol list and the four
sets of every FunctionIr of every FileIr) are taken before, after one and after two result generations. A
sample of the projects is also run through the real CLI (`-o ir`), whose document must be the pre-results one.

Model (Tie B): the Lean `Project` model resolves every call itself (`findCallTarget`: resolve_function,
resolve_class_init, resolve_import over the real root contexts) and runs `generate` over one store holding the
functions of all modules; it must reproduce the real resolution of every call, the results of both rounds and
the post-generation sets of every function of every module.
"""
from __future__ import annotations

import copy
import json
import os
import re
import shutil
import subprocess
import sys
import tempfile
from concurrent.futures import ThreadPoolExecutor
from pathlib import Path

import common
import impl

KINDS = ["plain", "ign", "excl", "ann", "anncall", "cls", "clsn", "clsi", "static", "lam", "var", "undef",
         "method", "via"]
FORMS = ["from", "from-as", "mod", "mod-as", "reexp", "star"]
SPECIAL = ["stdlib-from", "stdlib-mod", "local-func", "local-class", "local-ign", "local-nested"]

DECO_LOCAL = "def rattr_ignore(fn):\n    return fn\n\n\ndef rattr_results(**kw):\n    return lambda fn: fn\n"


# ------------------------------------------------------------------ generator

class Mod:
    def __init__(self, name, path, tag, below):
        self.name, self.path, self.tag = name, path, tag
        self.below = below            # names of the modules this one may import from
        self.imports = []             # import lines
        self.defs = []                # source chunks
        self.ents = {}                # kind -> exported top-level name
        self.reexports = {}           # exported name -> (defining module, kind)
        self.star = None              # module this one star-imports
        self.bound = {}               # name bound by a from-import -> module it was imported from
        self.n_callers = 0

    def add_import(self, line):
        if line not in self.imports:
            self.imports.append(line)

    def source(self):
        return "\n".join(self.imports) + ("\n\n\n" if self.imports else "") + "\n\n".join(self.defs) + "\n"


def entity_source(kind, t, rng):
    """(exported name, source) of an entity of the given kind in the module tagged `t`."""
    if kind == "plain":
        return f"pl_{t}", f"def pl_{t}(u):\n    u.pl_{t}_g\n    u.pl_{t}_s = 1\n    u.val\n    u.out = 2\n    return u\n"
    if kind == "ign":
        return f"ig_{t}", f"@rattr_ignore\ndef ig_{t}(u):\n    return u.ig_{t}_g\n"
    if kind == "excl":
        return f"excl_{t}", f"def excl_{t}(u):\n    return u.excl_{t}_g\n"
    if kind == "ann":
        return f"ann_{t}", (f"@rattr_results(gets={{\"u.ann_{t}_g\", \"u.val\"}}, sets={{\"u.ann_{t}_s\"}})\n"
                            f"def ann_{t}(u):\n    pass\n")
    if kind == "cls":
        return f"K_{t}", f"class K_{t}:\n    def __init__(self, u):\n        self.k_{t} = u.K_{t}_g\n        self.val = u.val\n"
    if kind == "clsn":
        return f"KN_{t}", f"class KN_{t}:\n    kn_{t} = 1\n"
    if kind == "clsi":
        return f"KI_{t}", f"@rattr_ignore\nclass KI_{t}:\n    def __init__(self, u):\n        self.ki_{t} = u.KI_{t}_g\n"
    if kind == "static":
        return f"H_{t}", f"class H_{t}:\n    @staticmethod\n    def sm(u):\n        del u.gone\n        return u.H_{t}_g + u.val\n"
    if kind == "lam":
        return f"lam_{t}", f"lam_{t} = lambda u: u.lam_{t}_g + u.val\n"
    if kind == "var":
        return f"VAR_{t}", f"VAR_{t} = 3\n"
    raise AssertionError(kind)


class ProjGen:
    """One project. `forced`: cells (location, kind, form) that must be realised."""

    def __init__(self, rng, forced=()):
        self.rng = rng
        self.forced = list(forced)
        self.cells = []               # realised (location, kind, form)
        r = rng
        self.mods = {
            "ha": Mod("ha", "ha.py", "a", ["hb", "pk", "pk.s"]),
            "hb": Mod("hb", "hb.py", "b", ["pk.s"]),
            "pk": Mod("pk", "pk/__init__.py", "i", ["pk.s"]),
            "pk.s": Mod("pk.s", "pk/s.py", "s", []),
        }
        self.target = Mod("target", "target.py", "t", ["ha", "hb", "pk", "pk.s"])
        self.cycle = r.random() < 0.12
        if self.cycle:
            self.mods["hb"].below = ["pk.s", "ha"]
        self.level = 1
        self.excluded_imports = []
        x = r.random()
        if x < 0.08:
            self.level = 0
        elif x < 0.22:
            self.excluded_imports = [r.choice(["hb", "pk.s", "pk.*", "ha"])]
        self.deco_module = r.random() < 0.4      # decorators imported from deco.py instead of defined locally
        self.nloc = 0

    # -- definitions
    def define_entities(self):
        r = self.rng
        need = {}
        for loc, kind, form in self.forced:
            need.setdefault(kind, 0)
        for name, m in self.mods.items():
            if name == "pk":
                continue
            t = m.tag
            for kind in ["plain", "ign", "excl", "ann", "cls", "clsn", "clsi", "static", "lam", "var"]:
                if kind in ("plain",) or kind in need or r.random() < 0.55:
                    nm, src = entity_source(kind, t, r)
                    m.ents[kind] = nm
                    m.defs.append(src)
        # re-exports: ha re-exports from hb / pk / pk.s, pk/__init__ from pk.s (absolute or relative form)
        for rname, froms in (("ha", ["hb", "pk.s"]), ("pk", ["pk.s"])):
            R = self.mods[rname]
            for dname in froms:
                D = self.mods[dname]
                picks = [(k, n) for k, n in D.ents.items() if r.random() < 0.5 or any(f == "reexp" for _, _, f in self.forced)]
                if not picks:
                    continue
                names = ", ".join(n for _, n in picks)
                if rname == "pk" and r.random() < 0.5:
                    R.add_import(f"from .s import {names}")
                else:
                    R.add_import(f"from {dname} import {names}")
                for k, n in picks:
                    R.reexports[n] = (dname, k)
        # chain of two: ha re-exports what pk re-exports
        P = self.mods["pk"]
        if P.reexports and r.random() < 0.6:
            picks = [n for n in P.reexports if n not in self.mods["ha"].reexports and r.random() < 0.6]
            if picks:
                self.mods["ha"].add_import(f"from pk import {', '.join(picks)}")
                for n in picks:
                    self.mods["ha"].reexports[n] = ("pk", P.reexports[n][1])

    def arg(self):
        r = self.rng
        p = r.choice(["u", "u", "w"])
        return p if r.random() < 0.7 else f"{p}.{r.choice(['fa', 'fb'])}"

    def call_line(self, X, loc, kind, form):
        """One call statement in module X (imports added to X); records the realised cell."""
        r = self.rng
        if kind in SPECIAL:
            return self.special_line(X, loc, kind)
        below = [m for m in X.below]
        if not below:
            return self.special_line(X, loc, "local-func")
        # which module defines the callee
        cands = [m for m in below if m != "pk" and (kind in ("undef", "method") or kind in self.mods[m].ents
                                                    or (kind == "via" and self.mods[m].n_callers))]
        if kind == "anncall":
            cands = [m for m in below if m != "pk" and "anncall" in self.mods[m].ents]
        if not cands:
            kind = "plain"
            cands = [m for m in below if m != "pk"]
        mname = r.choice(cands)
        M = self.mods[mname]
        t = M.tag
        if kind == "undef":
            top = f"nothing_{t}"
        elif kind == "method":
            top = M.ents.get("var") if (M.ents.get("var") and r.random() < 0.6) else f"nope_{t}"
        elif kind == "via":
            top = f"via{r.randrange(M.n_callers)}_{t}"
        else:
            top = M.ents[kind]
        # the form
        via_mod = mname
        if form == "reexp":
            rs = [R for R in below if top in self.mods[R].reexports]
            if rs:
                via_mod = r.choice(rs)
            else:
                form = "from"
        if form == "star":
            # (`from pk.s import *` outside an __init__ makes the warning's code generator raise ValueError: C07's subject)
            if X.star is None and kind not in ("undef", "method") and X.name != "pk" and "." not in mname:
                X.star = mname
                X.add_import(f"from {mname} import *")
            if X.star != mname or X.bound.get(top, mname) != mname:
                form = "from"
        alias = via_mod.replace(".", "_") + "_m"
        if form in ("from", "reexp") and X.bound.setdefault(top, via_mod) != via_mod:
            # the bare name is already bound to another module's object in this file
            X.add_import(f"from {via_mod} import {top} as {top}_{alias}")
            head = f"{top}_{alias}"
        elif form in ("from", "reexp"):
            X.add_import(f"from {via_mod} import {top}")
            head = top
        elif form == "from-as":
            X.add_import(f"from {via_mod} import {top} as {top}_x")
            head = f"{top}_x"
        elif form == "mod":
            X.add_import(f"import {via_mod}")
            head = f"{via_mod}.{top}"
        elif form == "mod-as":
            X.add_import(f"import {via_mod} as {alias}")
            head = f"{alias}.{top}"
        else:   # star
            head = top
        a = self.arg()
        if kind == "static":
            line = f"{head}.sm({a})"
        elif kind == "method":
            line = f"{head}.meth({a})"
        elif kind in ("cls", "clsn", "clsi") and r.random() < 0.6:
            self.nloc += 1
            line = f"x{self.nloc} = {head}({a})"
        elif kind == "clsn":
            line = f"{head}()"
        else:
            line = f"{head}({a})"
        self.cells.append((loc, kind, form))
        return line

    def special_line(self, X, loc, kind):
        r = self.rng
        a = self.arg()
        t = X.tag
        self.cells.append((loc, kind, "-"))
        if kind == "stdlib-from":
            X.add_import("from os.path import join")
            return f"join({a}, u.sj)"
        if kind == "stdlib-mod":
            X.add_import("import math")
            return f"math.sqrt({a})"
        if kind == "local-class":
            if f"class LK_{t}" not in "".join(X.defs):
                X.defs.append(f"class LK_{t}:\n    def __init__(self, u):\n        self.lk_{t} = u.LK_{t}_g\n")
            self.nloc += 1
            return f"y{self.nloc} = LK_{t}({a})"
        if kind == "local-ign":
            if f"def lig_{t}" not in "".join(X.defs):
                X.defs.append(f"@rattr_ignore\ndef lig_{t}(u):\n    return u.lig_{t}_g\n")
            return f"lig_{t}({a})"
        if kind == "local-nested":
            return f"inner_{t}({a})"       # a name nobody defines at module level
        if f"def loc_{t}" not in "".join(X.defs):
            X.defs.append(f"def loc_{t}(u):\n    u.loc_{t}_g\n    del u.loc_{t}_d\n    del u.gone\n    u.out = u.val\n")
        return f"loc_{t}({a})"

    def add_caller(self, X, loc, name, cells, extra=()):
        body = [f"u.{name}_own", *extra]
        for kind, form in cells:
            body.append(self.call_line(X, loc, kind, form))
        self.rng.shuffle(body)
        X.defs.append(f"def {name}(u, w):\n" + "\n".join("    " + b for b in body) + "\n")

    def random_cell(self):
        r = self.rng
        if r.random() < 0.2:
            return r.choice(SPECIAL), "-"
        return r.choice(KINDS), r.choice(FORMS)

    def build(self):
        r = self.rng
        self.define_entities()
        forced_t = [(k, f) for loc, k, f in self.forced if loc == "target"]
        forced_i = [(k, f) for loc, k, f in self.forced if loc == "import"]
        # callers inside the imports, deepest module first (a caller may call callers below it)
        for mname in ["pk.s", "hb", "ha"]:
            M = self.mods[mname]
            n = r.randint(0, 2) if mname != "ha" else r.randint(1, 2)
            if mname == "pk.s":
                n = 0                     # nothing below pk.s to call
            for j in range(n):
                cells = [self.random_cell() for _ in range(r.randint(1, 3))]
                if mname == "ha" and forced_i:
                    cells = forced_i[:3] + cells[:1]
                    forced_i = forced_i[3:]
                name = f"via{M.n_callers}_{M.tag}"
                extra = []
                if self.cycle and mname == "ha" and j == 0:
                    # a call cycle that crosses the module boundary twice: ha.via0_a -> hb.cyc_b -> ha.via0_a
                    M.add_import("from hb import cyc_b")
                    extra.append("cyc_b(w, u)")
                    self.mods["hb"].add_import("from ha import via0_a")
                    self.mods["hb"].defs.append("def cyc_b(u, w):\n    u.cyc_b_own\n    via0_a(w, u.fa)\n")
                    self.cells.append(("import", "cross-module-cycle", "from"))
                self.add_caller(M, "import", name, cells, extra)
                M.n_callers += 1
            # a function whose IR is declared by @rattr_results including a call to a function of its module
            if mname != "pk.s" and "plain" in M.ents and r.random() < 0.4:
                t = M.tag
                M.ents["anncall"] = f"anc_{t}"
                M.defs.append(f"@rattr_results(gets={{\"u.anc_{t}_g\"}}, calls=[(\"pl_{t}\", ([\"u\"], {{}}))])\n"
                              f"def anc_{t}(u):\n    pass\n")
        # the decorators
        for M in list(self.mods.values()) + [self.target]:
            src = "".join(M.defs)
            if "@rattr_" in src:
                if self.deco_module:
                    M.imports.insert(0, "from deco import rattr_ignore, rattr_results")
                else:
                    M.defs.insert(0, DECO_LOCAL)
        # the roots
        T = self.target
        n_roots = r.randint(2, 4)
        for i in range(n_roots):
            cells = [self.random_cell() for _ in range(r.randint(1, 4))]
            if forced_t:
                cells = forced_t[:3] + cells[:1]
                forced_t = forced_t[3:]
            if i == 0:
                cells.append(("via", r.choice(["from", "mod"])))
            self.add_caller(T, "target", f"t{i}", cells)
        src = "".join(T.defs)
        if "@rattr_" in src:
            if self.deco_module:
                T.imports.insert(0, "from deco import rattr_ignore, rattr_results")
            else:
                T.defs.insert(0, DECO_LOCAL)
        files = {m.path: m.source() for m in self.mods.values()}
        files["target.py"] = T.source()
        if self.deco_module:
            files["deco.py"] = DECO_LOCAL
        return {"files": files, "level": self.level, "excluded_imports": self.excluded_imports,
                "excluded_names": ["excl_.*"], "cells": sorted(set(self.cells))}


def all_cells():
    cells = []
    for loc in ("target", "import"):
        for k in KINDS:
            for f in FORMS:
                if k in ("undef", "method") and f in ("reexp", "star"):
                    continue
                if k in ("anncall", "via") and f == "reexp":
                    continue        # never re-exported by the generator
                cells.append((loc, k, f))
        for k in SPECIAL:
            cells.append((loc, k, "-"))
    return cells


# hand-written projects: the shapes named in the property's anchors and in reviewers' notes
CURATED = [
    ("ignored-imported-function", {
        "helpers.py": "def rattr_ignore(fn):\n    return fn\n\n\n@rattr_ignore\ndef opaque(thing):\n    return thing.secret\n\n\n"
                      "def plain(thing):\n    return thing.x\n",
        "target.py": "from helpers import opaque, plain\n\n\ndef f(b):\n    b.x\n    opaque(b)\n    return plain(b)\n"}),
    ("ignored-imported-class", {
        "helpers.py": "def rattr_ignore(fn):\n    return fn\n\n\n@rattr_ignore\nclass Opaque:\n    def __init__(self, t):\n        self.s = t.secret\n",
        "target.py": "import helpers\n\n\ndef f(b):\n    o = helpers.Opaque(b)\n    return o\n"}),
    ("ignored-through-reexport", {
        "inner.py": "def rattr_ignore(fn):\n    return fn\n\n\n@rattr_ignore\ndef deep(d):\n    return d.deep\n",
        "helpers.py": "from inner import deep\n\n\ndef via(t):\n    return deep(t)\n",
        "target.py": "from helpers import deep, via\n\n\ndef f(b):\n    deep(b)\n    return via(b.y)\n"}),
    ("import-chain-mutates-import-ir", {
        "helpers.py": "def plain(thing):\n    return thing.x\n\n\ndef chain(thing):\n    thing.c\n    return plain(thing.sub)\n",
        "target.py": "from helpers import chain\n\n\ndef f(b):\n    return chain(b)\n"}),
    ("twin-accesses-in-two-imports", {
        "north.py": "def read_north(sensor):\n    return sensor.value\n",
        "south.py": "# the southern station\n\n\ndef read_south(sensor):\n    del sensor.stale\n    return sensor.value\n",
        "target.py": "from north import read_north\nfrom south import read_south\n\n\ndef north_value(probe):\n"
                     "    return read_north(probe)\n\n\ndef south_value(probe):\n    return read_south(probe)\n"}),
    ("twin-accesses-in-one-import-and-in-the-target", {
        "lib.py": "def first(sensor):\n    sensor.value = 1\n    return sensor.value\n\n\ndef second(sensor):\n"
                  "    sensor.value = 2\n    return sensor.value\n\n\ndef inner(sensor):\n    return second(sensor)\n",
        "target.py": "import lib\n\n\ndef own(sensor):\n    return sensor.value\n\n\ndef a(probe):\n    return lib.first(probe)\n\n\n"
                     "def b(probe):\n    return lib.inner(probe)\n\n\ndef c(probe):\n    return own(probe)\n"}),
    ("excluded-and-undefined", {
        "helpers.py": "def excl_it(t):\n    return t.e\n\n\nVAR = 3\n",
        "target.py": "from helpers import excl_it, VAR, nothing\nimport helpers\n\n\ndef f(b):\n    excl_it(b)\n    VAR(b)\n"
                     "    nothing(b)\n    helpers.VAR.meth(b)\n    helpers.nope.meth(b)\n"}),
]


# ------------------------------------------------------------------ implementation side

def write_project(d: Path, files):
    for rel, src in files.items():
        p = d / rel
        p.parent.mkdir(parents=True, exist_ok=True)
        p.write_text(src)


def names_of(s):
    return sorted([n.name, n.basename] for n in s)


def located_names_of(s):
    """[name, basename, file, lineno, col_offset] of every member of a gets/sets/dels set (the location is NOT part of
    a Name's equality: which of two equal members a set holds shows only here)."""
    out = []
    for n in s:
        loc = getattr(n, "location", None)
        out.append([n.name, n.basename, str(getattr(loc, "defined_in", None)), getattr(loc, "lineno", None),
                    getattr(loc, "col_offset", None)])
    return sorted(out, key=lambda x: json.dumps(x))


def iface_json(sym):
    i = sym.interface
    if i is None or not hasattr(i, "posonlyargs"):
        return None
    return {"posonly": list(i.posonlyargs), "args": list(i.args), "vararg": i.vararg,
            "kwonly": list(i.kwonlyargs), "kwarg": i.kwarg}


def target_json(t):
    from rattr.models.symbol import Builtin, Class, Func, Import, Name
    if t is None:
        return {"k": "none"}
    if isinstance(t, Builtin):
        return {"k": "builtin", "name": t.name}
    if isinstance(t, Name):
        return {"k": "name", "name": t.name}
    if isinstance(t, Func):
        return {"k": "func", "name": t.name, "file": str(t.location.defined_in)}
    if isinstance(t, Class):
        return {"k": "cls", "name": t.name, "file": str(t.location.defined_in)}
    if isinstance(t, Import):
        return {"k": "imp", "name": t.name, "qual": t.qualified_name}
    return {"k": "other:" + type(t).__name__}


def msym_json(s, file_ir):
    from rattr.models.symbol import Class, Func, Import
    if isinstance(s, Func):
        return {"k": "func", "name": s.name, "hasIr": s in file_ir}
    if isinstance(s, Class):
        return {"k": "cls", "name": s.name, "hasIr": s in file_ir}
    if isinstance(s, Import):
        return {"k": "imp", "name": s.name, "qual": s.qualified_name}
    return {"k": "other", "name": s.name}


def deep_snapshot(file_ir, cids):
    """Everything structural about one FileIr (no call into rattr beyond reading attributes)."""
    fns = []
    for sym in file_ir:                       # iteration order of the mapping
        ir = file_ir[sym]
        calls = []
        for c in ir["calls"]:                 # real set iteration order
            # one entry of the call tree's `seen` set: the Call symbol (== ignores the location) and the file the
            # call is made in (rattr/results/util.py: make_target_ir_call_tree)
            cid = cids.setdefault((c, str(c.location.defined_in)), len(cids))
            calls.append({"cid": cid, "name": c.id, "full": c.name, "args": list(c.args.args),
                          "kwargs": [[a, b] for a, b in c.args.kwargs.items()], "target": target_json(c.target)})
        fns.append({"kind": type(sym).__name__, "name": sym.name, "file": str(sym.location.defined_in),
                    "iface": iface_json(sym), "calls": calls, "extra_keys": sorted(set(ir) - {"gets", "sets", "dels", "calls"}),
                    "gets": names_of(ir["gets"]), "sets": names_of(ir["sets"]), "dels": names_of(ir["dels"]),
                    "locs": {k: located_names_of(ir[k]) for k in ("gets", "sets", "dels")}})
    syms = file_ir.context.symbol_table.symbols
    return {"fns": fns, "symbols": [[type(s).__name__, s.id] for s in syms],
            "ctx": [msym_json(s, file_ir) for s in syms if type(s).__name__ in ("Func", "Class", "Import")
                    or not (s.name.startswith("__") or type(s).__name__ == "Builtin")]}


def structure_of(snap):
    """The part of a deep snapshot the model does not predict set by set: it must simply not change."""
    return {"keys": [[f["kind"], f["name"], f["file"], f["iface"]] for f in snap["fns"]],
            "symbols": snap["symbols"],
            "calls": [sorted(json.dumps({k: v for k, v in c.items() if k != "cid"}, sort_keys=True) for c in f["calls"])
                      for f in snap["fns"]],
            "extra_keys": [f["extra_keys"] for f in snap["fns"]]}


def sets_of(snap):
    return [{"gets": f["gets"], "sets": f["sets"], "dels": f["dels"]} for f in snap["fns"]]


def snapshot_all(file_ir, import_irs, cids):
    return {"target": deep_snapshot(file_ir, cids),
            "imports": [[name, deep_snapshot(ir, cids)] for name, ir in import_irs.items()]}


def real_resolution(file_ir, import_irs):
    """find_call_target_and_ir for every call of every function of every module, on a DEEP COPY (a
    resolution that writes must not disturb the observation). -> {(module index, fn index, call id text): answer}"""
    from rattr.results import IrCall, IrEnvironment, find_call_target_and_ir
    f2, i2 = copy.deepcopy((file_ir, import_irs))
    mods = [f2] + list(i2.values())
    env = IrEnvironment(target_ir=f2, import_irs=i2)
    out = []
    with impl.Tap():
        for mi, mir in enumerate(mods):
            for fi, sym in enumerate(list(mir)):
                for c in sorted(mir[sym]["calls"], key=lambda c: (c.id, json.dumps([list(c.args.args), sorted(c.args.kwargs.items())]))):
                    o = impl.outcome_of(find_call_target_and_ir, IrCall(caller=sym, symbol=c), environment=env)
                    if o[0] == "ok" and o[1] is not None:
                        ans = "foreign"
                        for mj, m2 in enumerate(mods):
                            for fj, s2 in enumerate(list(m2)):
                                if m2[s2] is o[1].ir:
                                    ans = [mj, fj]
                    elif o[0] == "ok":
                        ans = None
                    else:
                        ans = "raise:" + (o[1] if o[0] == "crash" else "fatal")
                    out.append({"mod": mi, "fn": fi, "name": c.id, "args": list(c.args.args),
                                "kwargs": [[a, b] for a, b in c.args.kwargs.items()], "answer": ans})
    return out


def results_json(res):
    return {k: {a: sorted(b) for a, b in v.items()} for k, v in dict(res).items()}


def observe(proj_dir: Path, spec):
    """Analyse the project in-process, generate results twice; every observation is plain JSON."""
    from rattr.analyser import file as F
    from rattr.analyser.util import is_excluded_name
    from rattr.config import Config
    from rattr.models.symbol import Import
    from rattr.models.util import serialise_irs
    from rattr.module_locator.util import (derive_module_name_from_path, is_in_import_blacklist, is_in_pip,
                                           is_in_stdlib, module_exists)
    from rattr.results import generate_results_from_ir

    saved_path = list(sys.path)
    obs = {}
    try:
        with impl.in_dir(str(proj_dir)):
            impl.reset_config(target=Path("target.py"), _follow_imports_level=spec["level"],
                              _excluded_imports=list(spec["excluded_imports"]), _excluded_names=list(spec["excluded_names"]))
            with impl.Tap():
                out = impl.outcome_of(F.parse_and_analyse_file)
            if out[0] != "ok":
                return {"analysis": f"{out[0]}:{out[1]}"}
            obs["analysis"] = "ok"
            file_ir, import_irs, _ = out[1]

            def doc():
                return serialise_irs(target_name="target.py", target_ir=file_ir, import_irs=import_irs)

            cids = {}
            snaps = [snapshot_all(file_ir, import_irs, cids)]
            docs = [doc()]
            # data of the model that are other properties' subject (C12: ladder verdicts, C13: names of files)
            quals, files, tnames = set(), set(), set()
            for mir in [file_ir] + list(import_irs.values()):
                for s in mir.context.symbol_table.symbols:
                    if isinstance(s, Import):
                        quals.add(s.qualified_name)
                for sym in mir:
                    files.add(str(sym.location.defined_in))
                    for c in mir[sym]["calls"]:
                        t = c.target
                        if isinstance(t, Import):
                            quals.add(t.qualified_name)
                        elif t is not None and getattr(t, "location", None) is not None:
                            files.add(str(t.location.defined_in))
                        if t is not None:
                            tnames.add(t.name)
            cands = set()
            for q in quals:
                parts = q.split(".")
                cands.update(".".join(parts[:i]) for i in range(1, len(parts) + 1))
            existing = sorted(c for c in cands if not c.startswith(".") and c and module_exists(c))
            a = Config().arguments
            ignored = []
            for m in existing:
                if is_in_import_blacklist(m) or not a.follow_local_imports \
                        or (not a.follow_pip_imports and is_in_pip(m)) \
                        or (not a.follow_stdlib_imports and is_in_stdlib(m)):
                    ignored.append(m)
            obs["world"] = {"existing": existing, "ignored": ignored,
                            "excluded": sorted(n for n in tnames if is_excluded_name(n)),
                            "moduleOfFile": [[f, derive_module_name_from_path(f)] for f in sorted(files)]}
            obs["resolution"] = real_resolution(file_ir, import_irs)
            snaps_check = snapshot_all(file_ir, import_irs, dict(cids))
            obs["harness_disturbed_ir"] = (snaps_check != snaps[0]) or (doc() != docs[0])
            Config().state.current_file = None
            outs = []
            for _ in range(2):
                with impl.Tap():
                    o = impl.outcome_of(generate_results_from_ir, target_ir=file_ir, import_irs=import_irs)
                outs.append(["ok", results_json(o[1])] if o[0] == "ok" else [o[0], str(o[1:])])
                snaps.append(snapshot_all(file_ir, import_irs, cids))
                docs.append(doc())
            obs["snaps"], obs["docs"], obs["outs"] = snaps, docs, outs
            obs["target_order"] = [s.id for s in file_ir]
            # ---- library use: MORE analyses in the same process, after the generations above. The Config is re-created
            # as a fresh `entry_point()` would, NO cache is cleared. What such an analysis hands to result generation must
            # be what a fresh analysis computes (props/c14hist.py).
            over = dict(_follow_imports_level=spec["level"], _excluded_imports=list(spec["excluded_imports"]),
                        _excluded_names=list(spec["excluded_names"]))
            hist = {}

            def analyse(target, keep_caches):
                if keep_caches:
                    fresh_config_keeping_caches(target=Path(target), **over)
                else:
                    impl.reset_config(target=Path(target), **over)
                with impl.Tap():
                    o = impl.outcome_of(F.parse_and_analyse_file)
                if o[0] != "ok":
                    return {"outcome": f"{o[0]}:{o[1]}"}, None
                f2, i2, _ = o[1]
                return {"outcome": "ok", "snap": snapshot_all(f2, i2, {})}, (f2, i2)

            if spec.get("history", True):
                hist["first"] = {"outcome": "ok", "snap": snaps[0]}
                hist["again"], _ = analyse("target.py", True)
                if (proj_dir / "target_b.py").exists():
                    hist["b_after"], irs = analyse("target_b.py", True)
                    hist["b_fresh"], _ = analyse("target_b.py", False)
            obs["history"] = hist
    finally:
        sys.path[:] = saved_path
    return obs


def fresh_config_keeping_caches(**over):
    """What a second `entry_point()` in the same process amounts to: the Config singleton is dropped and re-created;
    every functools cache (and any other module state) stays (impl.reset_config clears the caches)."""
    from unittest import mock
    from rattr.config import Config, State
    from rattr.config._types import ConfigMetaclass
    ConfigMetaclass._instance = None
    try:
        Config._instance = None
    except Exception:  # noqa
        pass
    with mock.patch("rattr.config._types.validate_arguments", lambda a: a):
        return Config(arguments=impl.default_arguments(**over), state=State())


def snapshot_difference(fresh, got):
    """What differs between two `snapshot_all` of the same target (call ids are per-snapshot: not compared)
    -> sorted list of 'where:kind' (empty when equal)."""
    out = set()
    ma = [("target", fresh["target"])] + [tuple(x) for x in fresh["imports"]]
    mb = [("target", got["target"])] + [tuple(x) for x in got["imports"]]
    if [m for m, _ in ma] != [m for m, _ in mb]:
        out.add("document:import-irs-key-list-differs")
    for i, ((na, sa), (nb, sb)) in enumerate(zip(ma, mb)):
        where = "target" if i == 0 else "import"
        if na != nb:
            continue
        sta, stb = structure_of(sa), structure_of(sb)
        for part, text in (("keys", "function-ir-key-list-differs"), ("symbols", "symbol-table-differs"), ("calls", "calls-differ"),
                           ("extra_keys", "function-ir-dict-keys-differ")):
            if part in ("calls", "extra_keys") and sta["keys"] != stb["keys"]:
                continue
            if sta[part] != stb[part]:
                out.add(f"{where}:{text}")
        if sa["ctx"] != sb["ctx"]:
            out.add(f"{where}:context-differs")
        if sta["keys"] == stb["keys"]:
            for fa, fb in zip(sa["fns"], sb["fns"]):
                for kind in ("gets", "sets", "dels"):
                    xa, xb = {tuple(n) for n in fa[kind]}, {tuple(n) for n in fb[kind]}
                    if xa != xb:
                        out.add(f"{where}:" + ("names-added" if xa <= xb else "names-removed-or-changed:" + kind))
                    elif fa["locs"][kind] != fb["locs"][kind]:
                        out.add(f"{where}:locations-differ:" + kind)
    return sorted(out)


def judge_inprocess_history(res, case, obs):
    from props import c14hist
    h = obs.get("history")
    if not h:
        return
    for key, ref, what in (("again", "first", "same-target-again"), ("b_after", "b_fresh", "another-target-analysed-before"),
                           ):
        if key not in h or ref not in h:
            continue
        a, b = h[key], h[ref]
        hist_of = {"again": ["target.py", "target.py"], "b_after": ["target.py", "target.py", "target_b.py"]}[key]
        if a["outcome"] != b["outcome"]:
            res.count("multi:history:outcome-differs")
            res.violations.append({"signature": f"history:in-process:outcome-differs-from-a-fresh-analysis:{what}", "case": case,
                                   "history": hist_of, "in_history": a["outcome"], "fresh": b["outcome"]})
            continue
        if a["outcome"] != "ok":
            res.count("multi:history:step-not-ok")
            continue
        d = snapshot_difference(b["snap"], a["snap"])
        if d:
            res.count("multi:history:ir-handed-to-generation-differs")
            res.violations.append({"signature": f"history:ir-handed-to-generation-differs-from-a-fresh-analysis:{what}:" + "+".join(d),
                                   "case": case, "history": hist_of, "style": "in-process"})
        else:
            res.count("multi:history:ir-handed-to-generation-equals-a-fresh-analysis:" + what)


def cli_flags(spec):
    fl = []
    if spec["level"] != 1:
        fl += ["-f", str(spec["level"])]
    for p in spec["excluded_imports"]:
        fl += ["-F", p]
    for p in spec["excluded_names"]:
        fl += ["-x", p]
    return fl


def run_cli(proj_dir: Path, spec):
    env = dict(os.environ)
    env["PYTHONHASHSEED"] = "0"
    env["PYTHONPATH"] = os.environ.get("RATTR_REPO", "/repo")
    env["PYTHONDONTWRITEBYTECODE"] = "1"
    p = subprocess.run([sys.executable, "-m", "rattr", "-o", "ir", "-w", "none", *cli_flags(spec), "target.py"],
                       cwd=str(proj_dir), env=env, capture_output=True, text=True, timeout=600)
    return p.returncode, p.stdout, p.stderr


# ------------------------------------------------------------------ model request

def fn_request(f):
    iface = f["iface"] or {"posonly": [], "args": [], "vararg": None, "kwonly": [], "kwarg": None}
    return {"isClass": f["kind"] == "Class", "name": f["name"], "file": f["file"], "iface": iface,
            "calls": [{"cid": c["cid"], "name": c["name"], "args": c["args"], "kwargs": c["kwargs"], "target": c["target"]}
                      for c in f["calls"]],
            "gets": f["gets"], "sets": f["sets"], "dels": f["dels"]}


def model_request(snap0, world, rounds=2):
    def mod(name, s):
        return {"name": name, "ctx": s["ctx"], "fns": [fn_request(f) for f in s["fns"]]}
    return {"target": mod("target", snap0["target"]), "imports": [mod(n, s) for n, s in snap0["imports"]],
            "existing": world["existing"], "ignored": world["ignored"], "excluded": world["excluded"],
            "moduleOfFile": [[f, m] for f, m in world["moduleOfFile"] if m is not None],
            "fuel": 64, "rounds": rounds}


def in_model_fragment(snap0):
    """Target kinds the model knows; everything else is counted as outside the fragment."""
    for _, s in [("target", snap0["target"])] + [tuple(x) for x in snap0["imports"]]:
        for f in s["fns"]:
            if f["iface"] is None:
                return "function-without-call-interface"
            for c in f["calls"]:
                if c["target"]["k"].startswith("other"):
                    return "call-target-kind:" + c["target"]["k"]
    return None


# ------------------------------------------------------------------ the oracle: what changed

def walk_doc(a, b, path, kinds):
    if type(a) != type(b):
        kinds.add("shape:" + "/".join(path[-2:]))
        return
    if isinstance(a, dict):
        if a.keys() != b.keys():
            kinds.add("keys-changed:" + (path[-1] if path else "document"))
            return
        for k in a:
            walk_doc(a[k], b[k], path + [k], kinds)
    elif isinstance(a, list):
        if a != b:
            leaf = next((p for p in reversed(path) if p in ("gets", "sets", "dels", "calls")), "other")
            sa = [json.dumps(x, sort_keys=True) for x in a]
            sb = [json.dumps(x, sort_keys=True) for x in b]
            if leaf in ("gets", "sets", "dels") and set(sa) <= set(sb):
                fn = path[path.index("function_irs") + 1] if "function_irs" in path else "?"
                kinds.add(("names-added", fn))
            elif leaf in ("gets", "sets", "dels"):
                kinds.add("names-removed-or-changed:" + leaf)
            else:
                kinds.add("changed:" + leaf)
    elif a != b:
        kinds.add("scalar-changed:" + "/".join(path[-1:]))


def module_docs(doc_json):
    out = [("target", doc_json["target_ir"]["ir"])]
    out += [(m, ir) for m, ir in doc_json["import_irs"].items()]
    return out


def classify_change(doc_a, doc_b, snap_a, snap_b, has_resolvable):
    """Differences between two observations of the IR of a project, module by module.
    -> list of (where, signature-detail, known?) ; `has_resolvable(where, fn name)` says whether the
    function has a call that resolves (per the Lean model of the pinned code)."""
    out = []
    ja, jb = json.loads(doc_a), json.loads(doc_b)
    if set(ja) != set(jb) or set(ja["import_irs"]) != set(jb["import_irs"]) or list(ja["import_irs"]) != list(jb["import_irs"]):
        out.append(("document", "import-irs-key-list-changed", False))
    for (ma, ira), (mb, irb) in zip(module_docs(ja), module_docs(jb)):
        where = "target" if ma == "target" and ira is ja["target_ir"]["ir"] else "import"
        kinds = set()
        walk_doc(ira, irb, [], kinds)
        added = sorted(k[1] for k in kinds if isinstance(k, tuple))
        other = sorted(k for k in kinds if not isinstance(k, tuple))
        for k in other:
            out.append((where, k, False))
        for fn in added:
            if has_resolvable(ma if where == "import" else None, fn):
                out.append((where, "names-added", True))
            else:
                out.append((where, "names-added-to-a-function-without-resolvable-call", False))
    # the deep snapshot: what the serialised document may not show
    mods_a = [("target", snap_a["target"])] + [tuple(x) for x in snap_a["imports"]]
    mods_b = [("target", snap_b["target"])] + [tuple(x) for x in snap_b["imports"]]
    if [m for m, _ in mods_a] != [m for m, _ in mods_b]:
        out.append(("document", "import-irs-key-list-changed", False))
    for i, ((ma, sa), (mb, sb)) in enumerate(zip(mods_a, mods_b)):
        where = "target" if i == 0 else "import"
        sta, stb = structure_of(sa), structure_of(sb)
        for part in ("keys", "symbols", "calls", "extra_keys"):
            if part in ("calls", "extra_keys") and sta["keys"] != stb["keys"]:
                continue        # per-function parts are only comparable over the same key list
            if sta[part] != stb[part]:
                out.append((where, "object:" + {"keys": "function-ir-key-list-changed", "symbols": "symbol-table-changed",
                                                "calls": "calls-changed", "extra_keys": "function-ir-dict-keys-changed"}[part], False))
        if sta["keys"] == stb["keys"]:
            for fa, fb in zip(sa["fns"], sb["fns"]):
                for kind in ("gets", "sets", "dels"):
                    xa, xb = {tuple(n) for n in fa[kind]}, {tuple(n) for n in fb[kind]}
                    if xa == xb:
                        continue
                    if xa <= xb:
                        ok = has_resolvable(ma if i else None, fa["name"])
                        out.append((where, "names-added" if ok else "names-added-to-a-function-without-resolvable-call", ok))
                    else:
                        out.append((where, "object:names-removed-or-changed:" + kind, False))
    return sorted(set(out))


# ------------------------------------------------------------------ judging one project

KNOWN_SIG = "ir-mutated:callee-names-added-to-caller-ir"


def flat_snapshot(snap0, resolution_model, sizes):
    """The project as one program in resultslib's snapshot format (for the call-graph features)."""
    mods = [snap0["target"]] + [s for _, s in snap0["imports"]]
    fns, resolve = [], {}
    for mi, s in enumerate(mods):
        for fi, f in enumerate(s["fns"]):
            fns.append({"name": f["name"], "kind": f["kind"], "iface": f["iface"],
                        "calls": [{"cid": c["cid"], "name": c["name"], "args": c["args"], "kwargs": c["kwargs"]} for c in f["calls"]],
                        "gets": f["gets"], "sets": f["sets"], "dels": f["dels"]})
            for c, r in zip(f["calls"], resolution_model[mi][fi]):
                resolve.setdefault(c["cid"], r if isinstance(r, int) else None)
    return {"fns": fns, "resolve": sorted(resolve.items()), "order": list(range(sizes[0]))}


def key_to_pair(k, sizes):
    for mi, n in enumerate(sizes):
        if k < n:
            return [mi, k]
        k -= n
    return "out-of-range"


def judge_project(res, case, spec, obs, mo):
    """Correspondence + property oracle for one observed project. Returns True when non-trivial."""
    from props import resultslib as rl
    snap0 = obs["snaps"][0]
    mods0 = [("target", snap0["target"])] + [tuple(x) for x in snap0["imports"]]
    pinned = True
    model_ok = isinstance(mo, dict) and "__error__" not in mo
    if not model_ok:
        res.disagreements.append({"case": case, "model": mo})
        pinned = False
        resolution_model, sizes = [[[None for _ in f["calls"]] for f in s["fns"]] for _, s in mods0], [len(s["fns"]) for _, s in mods0]
    else:
        resolution_model, sizes = mo["resolution"], mo["sizes"]
    # ---- correspondence 1: the resolution of every call of every module
    real = {}
    dup = set()
    for r in obs["resolution"]:
        k = (r["mod"], r["fn"], r["name"], json.dumps([r["args"], r["kwargs"]]))
        if k in real:
            dup.add(k)
        real[k] = r["answer"]
    n_cross = 0
    cid_answers = {}
    for mi, (_, s) in enumerate(mods0):
        for fi, f in enumerate(s["fns"]):
            for c, mr in zip(f["calls"], resolution_model[mi][fi]):
                k = (mi, fi, c["name"], json.dumps([c["args"], c["kwargs"]]))
                if k in dup or k not in real:
                    continue
                m_ans = key_to_pair(mr, sizes) if isinstance(mr, int) else (None if mr is None else "raise:" + mr)
                i_ans = real[k]
                res.count("multi:resolution:" + ("key" if isinstance(i_ans, list) else str(i_ans)) + ":" + c["target"]["k"])
                if isinstance(i_ans, list) and i_ans[0] != mi:
                    n_cross += 1
                cid_answers.setdefault(c["cid"], set()).add(json.dumps(m_ans))
                if model_ok and m_ans != i_ans:
                    res.disagreements.append({"case": case, "what": "find_call_target_and_ir", "call": c, "in": [mi, f["name"]],
                                              "impl": i_ans, "model": m_ans})
                    pinned = False
    if any(len(v) > 1 for v in cid_answers.values()):
        # equal Call symbols (one entry of `seen`) that resolve differently: the flat model keys resolution by the
        # equality class, so its prediction is not binding here
        res.count("multi:equal-call-symbols-resolve-differently")
        res.skipped_outside_fragment += 1
        model_ok = False

    # the call graph over resolvable calls (the model's resolution AND the real one: the more permissive union), for the
    # provenance oracle
    offs = [sum(len(s["fns"]) for _, s in mods0[:mi]) for mi in range(len(mods0))]
    edges = [set() for _, s in mods0 for _ in s["fns"]]
    for mi, (_, s) in enumerate(mods0):
        for fi, f in enumerate(s["fns"]):
            for c, mr in zip(f["calls"], resolution_model[mi][fi]):
                if isinstance(mr, int):
                    edges[offs[mi] + fi].add(mr)
    for r in obs["resolution"]:
        a = r["answer"]
        if isinstance(a, list) and a[0] < len(offs):
            edges[offs[r["mod"]] + r["fn"]].add(offs[a[0]] + a[1])
    obs["_edges"] = edges

    def has_resolvable(module, fn_name):
        for mi, (mn, s) in enumerate(mods0):
            if (module is None and mi == 0) or (module is not None and mi > 0 and mn == module):
                for fi, f in enumerate(s["fns"]):
                    if f["name"] == fn_name and any(isinstance(r, int) for r in resolution_model[mi][fi]):
                        return True
        return False

    # ---- correspondence 2: both rounds — outcome, results of the target's functions, every set of every module
    outs = obs["outs"]
    for r in (0, 1):
        if not model_ok or not pinned:
            break
        if r >= len(mo["rounds"]):
            break
        mr = mo["rounds"][r]
        io = outs[r]
        if mr["outcome"] in ("outOfFuel", "never"):
            if io[0] == "ok":
                res.disagreements.append({"case": case, "round": r, "impl": "ok", "model": mr["outcome"]})
                pinned = False
            break
        if (mr["outcome"] == "ok") != (io[0] == "ok"):
            res.disagreements.append({"case": case, "round": r, "what": "outcome", "impl": io[0] if io[0] == "ok" else io,
                                      "model": mr["outcome"]})
            pinned = False
            break
        if mr["outcome"] == "ok":
            want = {}
            for e in mr["results"]:
                name = obs["target_order"][e["key"]]
                want[name] = {k: sorted({n[0] for n in e[k]}) for k in ("gets", "sets", "dels")}
            got = {fn: {k: v[k] for k in ("gets", "sets", "dels")} for fn, v in io[1].items()}
            if want != got:
                res.disagreements.append({"case": case, "round": r, "what": "results", "impl": got, "model": want})
                pinned = False
                break
        if not mr["skeletonSame"]:
            res.internal_errors.append({"what": "the model changed a project's skeleton (contradicts C14_project_structure_unchanged)",
                                        "case": case})
        snap_r = obs["snaps"][r + 1]
        mods_r = [("target", snap_r["target"])] + [tuple(x) for x in snap_r["imports"]]
        if [[m, [[f["kind"] == "Class", f["name"]] for f in s["fns"]]] for m, s in mods_r] != \
                [[("target" if i == 0 else m), ks] for i, (m, ks) in enumerate(mr["keys"])]:
            res.disagreements.append({"case": case, "round": r, "what": "key lists of the FileIrs after generation",
                                      "impl": [[m, [f["name"] for f in s["fns"]]] for m, s in mods_r],
                                      "model": [[m, [k[1] for k in ks]] for m, ks in mr["keys"]]})
            pinned = False
            break
        for mi, (mn, s) in enumerate(mods_r):
            for fi, f in enumerate(s["fns"]):
                ms = mr["store"][mi][fi]
                for kind in ("gets", "sets", "dels"):
                    if {tuple(n) for n in f[kind]} != {tuple(n) for n in ms[kind]}:
                        res.disagreements.append({"case": case, "round": r, "what": "IR after generation", "module": mn,
                                                  "function": f["name"], "set": kind, "impl": f[kind], "model": sorted(ms[kind])})
                        pinned = False
                        break
                if not pinned:
                    break
            if not pinned:
                break

    # ---- the property oracle
    raised_as_pinned = False
    for r in (0, 1):
        if outs[r][0] != "ok":
            if pinned and model_ok and r < len(mo["rounds"]) and mo["rounds"][r]["outcome"] == "raised":
                raised_as_pinned = True
                res.count("multi:generation-raises-as-the-pinned-code-does (C06/C12 finding)")
            else:
                res.violations.append({"signature": "result-generation-crash", "case": case, "detail": outs[r]})
            break
    for r in (0, 1):
        changes = classify_change(obs["docs"][r], obs["docs"][r + 1], obs["snaps"][r], obs["snaps"][r + 1], has_resolvable)
        if not changes:
            res.count(f"multi:ir-after-generation-{r + 1}:unchanged")
        for where, kind, known in changes:
            if known:
                sig = KNOWN_SIG if pinned else KNOWN_SIG.replace("ir-mutated:", "ir-mutated:not-the-pinned-behaviour:", 1)
            else:
                sig = f"ir-mutated:other:{where}:{kind}"
            res.count(f"multi:ir-after-generation-{r + 1}:{where}:{kind}")
            if r == 1 and known:
                continue        # the second generation adding names again is judged through the results below
            res.violations.append({"signature": sig, "case": case, "generation": r + 1, "where": where})
    # ---- provenance: a name result generation folds into a function is located where a function it reaches wrote it
    from props import c14prov
    pre_flat, _ = c14prov.flat_of_snapshot(snap0)
    for r in (0, 1):
        post_flat, _ = c14prov.flat_of_snapshot(obs["snaps"][r + 1])
        if [(f["kind"], f["name"]) for f in post_flat] != [(f["kind"], f["name"]) for f in pre_flat]:
            break           # the key lists changed: reported above
        pv = c14prov.provenance_violations(pre_flat, post_flat, edges)
        if not pv:
            res.count(f"multi:provenance-after-generation-{r + 1}:every-name-located-where-a-reachable-function-wrote-it")
        for cls in sorted({v["class"] for v in pv}):
            res.count(f"multi:provenance-after-generation-{r + 1}:{cls}")
            res.violations.append({"signature": f"ir-mutated:other:folded-name-located-{cls}", "case": case,
                                   "generation": r + 1, "names": [v for v in pv if v["class"] == cls][:6]})
        if pv:
            break
    if outs[0][0] == "ok" and outs[1][0] == "ok":
        if outs[0][1] != outs[1][1]:
            feats = rl.other_roots_features(flat_snapshot(snap0, resolution_model, sizes), {})
            from props import c14 as c14mod
            f = next((x for x in c14mod.ORDER_FEATURES if x in feats), "clean-fragment")
            if not pinned:
                f = "not-the-pinned-behaviour:" + f
            res.count("multi:second-generation-differs:" + f)
            res.violations.append({"signature": "second-generation-differs:" + f, "case": case,
                                   "first": outs[0][1], "second": outs[1][1]})
        else:
            res.count("multi:second-generation-equal")
    return n_cross > 0


def strip_locations(x):
    if isinstance(x, dict):
        return {k: strip_locations(v) for k, v in x.items() if k != "location"}
    if isinstance(x, list):
        return [strip_locations(v) for v in x]
    return x


def judge_cli(res, case, obs, cli):
    """`-o ir` must print the IR as it was before results were generated."""
    rc, out, err = cli
    if rc != 0:
        res.count("multi:cli:exit-" + str(rc))
        if obs["outs"][0][0] == "ok":
            res.disagreements.append({"case": case, "what": "the CLI fails where in-process generation succeeds", "rc": rc,
                                      "stderr": err[-600:]})
        return
    try:
        j = json.loads(out)
    except Exception:
        res.disagreements.append({"case": case, "what": "-o ir output is not JSON", "stdout": out[:300]})
        return
    before, mid = json.loads(obs["docs"][0]), json.loads(obs["docs"][1])
    # provenance of what `-o ir` prints (locations are NOT stripped here)
    if "_edges" in obs:
        from props import c14prov
        pre_flat, _ = c14prov.flat_of_snapshot(obs["snaps"][0])
        try:
            post_flat = c14prov.flat_of_document(j, obs["snaps"][0])
        except (KeyError, TypeError, AttributeError):
            post_flat = None
        if post_flat is not None:
            pv = c14prov.provenance_violations(pre_flat, post_flat, obs["_edges"], root=obs.get("_dir"))
            if not pv:
                res.count("multi:cli:provenance:every-name-located-where-a-reachable-function-wrote-it")
            for cls in sorted({v["class"] for v in pv}):
                res.count("multi:cli:provenance:" + cls)
                res.violations.append({"signature": f"ir-mutated:other:cli:folded-name-located-{cls}", "case": case,
                                       "names": [v for v in pv if v["class"] == cls][:6]})
    sj = strip_locations(j)
    if sj == strip_locations(before):
        res.count("multi:cli:-o-ir-equals-pre-results-ir")
        return
    if sj != strip_locations(mid):
        # not a verdict by itself: the CLI runs under another hash seed, and where a known defect makes the outcome
        # depend on the iteration order of a `calls` set the two post-generation IRs may legitimately differ
        res.count("multi:cli:-o-ir-is-neither-the-pre-nor-the-in-process-post-results-ir")
    kinds = set()
    walk_doc(strip_locations(before), sj, [], kinds)
    other = sorted(k for k in kinds if not isinstance(k, tuple))
    if other:
        for k in other:
            res.violations.append({"signature": f"ir-mutated:other:cli:{k}", "case": case})
    else:
        res.count("multi:cli:-o-ir-shows-the-names-added-by-result-generation")


# ------------------------------------------------------------------ the stage

def run_stage(res, rng, tier, model):
    from props import c14hist
    n_random = 70 if tier == "quick" else 700
    n_cli = 10 if tier == "quick" else 60
    want = all_cells()
    rng.shuffle(want)
    tmp = Path(tempfile.mkdtemp(prefix="rattr-c14-"))
    try:
        projects = []
        retries = {}
        for label, files in CURATED:
            projects.append((label, {"files": files, "level": 1, "excluded_imports": [], "excluded_names": ["excl_.*"], "cells": []}))
        i = 0
        while want or i < n_random:
            forced = [want.pop() for _ in range(min(6, len(want)))]
            spec = ProjGen(rng, forced).build()
            got = set(spec["cells"])
            for c in forced:
                # a forced cell the project could not realise (no suitable module drawn) is retried a few times
                if c not in got and retries.get(c, 0) < 4:
                    retries[c] = retries.get(c, 0) + 1
                    want.insert(0, c)
            projects.append((f"proj{i}", spec))
            i += 1
            if i > n_random * 3:
                break
        realised = set()
        observed = []
        import time
        t_start = time.time()
        n_hist = 3 if tier == "quick" else 60
        ex = ThreadPoolExecutor(max_workers=6)
        cli_f, hist_f = {}, {}
        for i, (label, spec) in enumerate(projects):
            res.evaluations += 1
            d = tmp / f"p{i}"
            spec["files"] = c14hist.with_second_target(spec["files"])
            spec["history"] = i < len(CURATED) or i % 3 == 0 or tier != "quick"      # (cost: three more analyses)
            write_project(d, spec["files"])
            # the sub-process observations (CLI, histories in fresh interpreters) of a sample run while the in-process ones do
            if i < len(CURATED) + n_cli:
                cli_f[i] = ex.submit(run_cli, d, spec)
            if i < len(CURATED) + n_hist:
                hist_f[i] = c14hist.submit(ex, d, spec, "main" if i % 4 == 3 else "library", hashseed=0,
                                           post=(tier != "quick" or i % 3 == 0))
            obs = observe(d, spec)
            case = {"label": label, "files": spec["files"], "follow_imports": spec["level"],
                    "exclude_import": spec["excluded_imports"], "exclude": spec["excluded_names"]}
            if obs["analysis"] != "ok":
                res.count("multi:analysis:" + obs["analysis"])
                res.skipped_outside_fragment += 1
                continue
            if obs["harness_disturbed_ir"]:
                res.internal_errors.append({"what": "resolving calls on a deep copy changed the observed IR", "case": case})
                continue
            why = in_model_fragment(obs["snaps"][0])
            if why:
                res.count("multi:outside-model-fragment:" + why)
            realised.update(spec["cells"])
            for c in spec["cells"]:
                res.count("multi:cell:" + ":".join(c))
            res.count(f"multi:config:follow-imports={spec['level']}" + (":exclude-import" if spec["excluded_imports"] else ""))
            res.count(f"multi:followed-imports:{len(obs['snaps'][0]['imports'])}")
            obs["_dir"] = str(d)
            observed.append((i, d, case, spec, obs, why))
        t_obs = time.time()
        outs = model.batch([("results_project", model_request(obs["snaps"][0], obs["world"])) for _, _, _, _, obs, _ in observed])
        t_model = time.time()
        for (i, d, case, spec, obs, why), mo in zip(observed, outs):
            if why:
                mo = {"__error__": "outside fragment: " + why}
                res.skipped_outside_fragment += 1
                n0 = len(res.disagreements)
                judge_project(res, case, spec, obs, mo)
                del res.disagreements[n0:]
                judge_inprocess_history(res, case, obs)
                continue
            judge_inprocess_history(res, case, obs)
            if judge_project(res, case, spec, obs, mo):
                res.nontrivial.add(common.digest(spec["files"]))
            res.sample({"label": case["label"], "files": sorted(spec["files"]), "cells": spec["cells"][:6]}, cap=6)
        # ---- the CLI on a sample (curated ones always)
        t_judge = time.time()
        for (i, d, case, spec, obs, why) in observed:
            if i in cli_f:
                judge_cli(res, case, obs, cli_f[i].result())
        t_cli = time.time()
        # ---- histories in really fresh interpreters (props/c14hist.py), on a sample (curated ones always)
        for (i, d, case, spec, obs, why) in observed:
            if i in hist_f:
                c14hist.collect(res, case, hist_f[i])
        ex.shutdown(wait=True)
        res.extra["multi_timing_info_only"] = {"observe": round(t_obs - t_start, 1), "model": round(t_model - t_obs, 1),
                                               "judge": round(t_judge - t_model, 1), "cli": round(t_cli - t_judge, 1),
                                               "histories": round(time.time() - t_cli, 1), "projects": len(projects)}
        missing = [c for c in all_cells() if c not in realised]
        res.extra["multi_cells_realised"] = len(realised)
        res.extra["multi_cells_missing"] = [":".join(c) for c in missing][:20]
    finally:
        shutil.rmtree(tmp, ignore_errors=True)

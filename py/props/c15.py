"""C15 — exit status and badness follow the documented contract.

Tie B. Implementation side = generated two-file projects (target + followed local import) run
(a) through the real CLI in subprocesses (exit status, stdout, stderr, `-o stats` badness table) and
(b) in-process through the real `main` with a pre-filter diagnostic tap (event list, real bucket
deltas, printed lines). The Lean model `Diag.run` is fed the event list tapped from a permissive
dry run plus the configuration and must predict buckets, exit status, whether stdout is non-empty
and the printed (level, place) sequence of every configured run. Property oracle = the Lean spec
`Spec.exit` / `Spec.buckets` evaluated on the real event list vs the real exit status / badness
table, plus per-diagnostic checks (documented weight, weight added to the bucket of the place it
arose).
"""
from __future__ import annotations

import json
import random

import copy
import os
import sys

import common
import impl  # noqa: F401
import diag_common as dc
from props import c15scope as cs

PID = "C15"
TABLES = ["C15", "C16"]

DOC_WEIGHT = {"info": 0, "warning": 1, "error": 5, "fatal": 0}   # README / --help: +0 / +1 / +5
DOC_WEIGHTLESS_PREFIXES = ("unable to resolve builtin module",)
BUCKET_IX = {"target": 0, "import": 1, "simplification": 2}


# ------------------------------------------------------------------ cases

def fixed_programs():
    """One program per menu construct and place, plus a few hand-written mixes."""
    out = []
    for k in dc.ANALYSIS_MENU:
        out.append({"target": [k], "import": [], "simpl": [], "fatal": None})
        out.append({"target": [], "import": [k], "simpl": [], "fatal": None})
    for k in dc.SIMPL_MENU:
        out.append({"target": [], "import": [], "simpl": [k], "fatal": None})
    for k in dc.FATAL_MENU:
        out.append({"target": ["undefined_name"], "import": ["nested_def"], "simpl": [], "fatal": [k, "target", 1]})
        out.append({"target": ["undefined_name"], "import": ["nested_def"], "simpl": ["call_ignored"], "fatal": [k, "import", 0]})
    out.append({"target": ["undefined_name", "method_call"], "import": ["nested_def", "undefined_name"],
                "simpl": ["stdlib_call"], "fatal": None})       # strict: import error only
    out.append({"target": ["method_call"], "import": ["undefined_name"], "simpl": ["stdlib_call"], "fatal": None})
    out.append({"target": ["nested_def", "undefined_name"], "import": ["lambda_in_function"],
                "simpl": ["too_many_args", "call_ignored"], "fatal": None})
    return out


def configs_for(total, rng):
    """8 configurations around the dry-run total (= target + simplification badness)."""
    ws = [rng.choice(dc.WARN) for _ in range(8)]
    thr = [0, max(total - 1, 0), total, total + 1]
    cfgs = [dict(strict=False, threshold=t, warn=ws[i], H=False, T=False, via_toml=False,
                 explicit_threshold=(t == 0 and i > 0)) for i, t in enumerate(thr)]
    cfgs.append(dict(strict=True, threshold=0, warn=ws[4], H=False, T=False, via_toml=False))
    cfgs.append(dict(strict=True, threshold=0, warn=ws[5], H=False, T=False, via_toml=True))
    cfgs.append(dict(strict=True, threshold=total + 1, warn=ws[6], H=False, T=False, via_toml=True))
    cfgs.append(dict(strict=True, threshold=max(total - 1, 1), warn=ws[7], H=False, T=False, via_toml=True))
    return cfgs


def argv_of(cfg, project, output):
    a = dc.argv_for(cfg, project.target_arg, output)
    # analysis options of the program itself (-F / -x / -f; part of the input, the same in every configuration)
    a = list(getattr(project, "option_argv", ())) + a
    if cfg.get("via_toml"):
        a = ["-c", "strict.toml"] + a
    return a


def model_cfg(cfg):
    return {"strict": cfg["strict"], "threshold": cfg["threshold"], "warn": cfg["warn"],
            "H": bool(cfg.get("H")), "T": bool(cfg.get("T"))}


# ------------------------------------------------------------------ oracle pieces

def arose(ev):
    """Where the diagnostic arose, determined without `state.current_file`: the stage of `main`
    it was raised in, and for analysis-stage diagnostics the line of the AST culprit (imported files
    are padded so that their line numbers exceed IMPORT_PAD)."""
    if ev["stage"] == "simplification":
        return "simplification"
    if ev["stage"] == "analysis" and ev["culprit"] == "ast" and ev["line"] is not None:
        return "import" if ev["line"] > dc.IMPORT_PAD else "target"
    return None


def event_violations(ev):
    """Per-diagnostic checks on a real tapped event. -> list of signatures."""
    out = []
    lvl, b = ev["level"], ev["badness"]
    if b != DOC_WEIGHT[lvl]:
        if not (b == 0 and ev["message"].startswith(DOC_WEIGHTLESS_PREFIXES)):
            out.append(f"undocumented-weight:{lvl}:{b}")
    a = arose(ev)
    if a is not None and ev["where"] is not None and a != ev["where"]:
        out.append(f"bucket-of-diagnostic:arose-in-{a}-counted-as-{ev['where']}")
    if ev["before"] is not None and ev["after"] is not None and ev["where"] is not None:
        delta = [y - x for x, y in zip(ev["before"], ev["after"])]
        want = [0, 0, 0]
        want[BUCKET_IX[a or ev["where"]]] = DOC_WEIGHT[lvl] if b == DOC_WEIGHT[lvl] else b
        if delta != want:
            if sum(delta) == 0 and sum(want) > 0:
                out.append(f"weight-not-added:{lvl}:{a or ev['where']}")
            elif sum(delta) == sum(want):
                got = [k for k, i in BUCKET_IX.items() if delta[i]]
                out.append(f"weight-added-to-wrong-bucket:{lvl}:{a or ev['where']}->{'+'.join(got)}")
            else:
                out.append(f"weight-added-differs:{lvl}:{a or ev['where']}:{sum(delta)}-for-{sum(want)}")
    return out


def exit_signature(real, spec, cfg, evs, spec_out):
    counted = spec_out["counted"]
    imports = spec_out["bucketsAll"][1]
    thr, strict = cfg["threshold"], cfg["strict"]
    has_fatal = any(e["level"] == "fatal" for e in evs)
    werr = [e for e in evs if e["level"] == "error" and e["badness"] > 0]
    if real == 1 and spec == 0:
        if not strict and thr != 0 and counted == thr:
            return "exit1-at-badness-equal-to-threshold"
        if not strict and thr != 0 and counted < thr < counted + imports:
            return "exit1-but-only-import-badness-exceeds-threshold"
        if not strict and thr == 0:
            return "exit1-with-unlimited-threshold"
        if strict and imports > 0:
            return "exit1-strict-with-only-unweighted-or-import-non-error-badness"
        return "exit1-expected-0:other"
    if real == 0 and spec == 1:
        if has_fatal:
            return "exit0-despite-fatal-diagnostic"
        if strict and werr:
            return "exit0-strict-despite-weighted-error-in-" + "+".join(sorted({e["where"] for e in werr}))
        if strict:
            return "exit0-strict-despite-nonzero-badness"
        if counted == thr + 1:
            return "exit0-at-badness-one-above-threshold"
        return "exit0-above-threshold"
    return f"exit{real}-expected-{spec}:other"


# ------------------------------------------------------------------ run

def prepare_program(res, project, prog, rng, pidx):
    """Dry run of one program and its configurations; None if outside the fragment."""
    case_base = {"program": prog, "layout": project.layout}
    dry_cfg = dict(strict=False, threshold=0, warn="all", H=False, T=False)
    dry = dc.run_inprocess(project, argv_of(dry_cfg, project, "results"))
    if dry["crash"] is not None:
        res.skipped_outside_fragment += 1
        res.count("skipped:dry-run-crash:" + str(dry["crash"][1]))
        return None
    odd = [e for e in dry["events"] if e["stage"] not in ("analysis", "simplification")]
    if odd or any(e["where"] is None for e in dry["events"]):
        res.skipped_outside_fragment += 1
        res.count("skipped:diagnostic-outside-analysis-stages")
        return None
    evs = dc.model_events(dry["events"])
    for e in dry["events"]:
        res.count(f"event:{e['level']}:{e['where']}")
        for sig in event_violations(e):
            res.violations.append({"signature": sig, "case": {**case_base, "cfg": dry_cfg}, "event": {k: e[k] for k in ("level", "badness", "where", "stage", "line", "message", "before", "after")}})
    total = dry["buckets"][0] + dry["buckets"][2]
    cfgs = configs_for(total, rng)
    outputs = ["stats" if (i + pidx) % 2 == 0 else "results" for i in range(len(cfgs))]
    return {"project": project, "prog": prog, "case_base": case_base, "evs": evs, "total": total, "cfgs": cfgs,
            "outputs": outputs}


def taken(rec, ci):
    """The in-process run of configuration `ci` made while the CLI subprocesses were running (an
    exception raised there is raised here, where the caller reports it)."""
    ips = rec.get("ips")
    if not ips or ci >= len(ips) or ips[ci] is None:
        return None
    if isinstance(ips[ci], BaseException):
        raise ips[ci]
    return ips[ci]


def judge_program(res, rec, cli, mouts):
    project, prog, case_base, evs, total = rec["project"], rec["prog"], rec["case_base"], rec["evs"], rec["total"]
    for ci, (cfg, output, cl, mo) in enumerate(zip(rec["cfgs"], rec["outputs"], cli, mouts)):
        res.evaluations += 1
        case = {**case_base, "cfg": cfg, "argv": argv_of(cfg, project, output), "events": evs}
        if evs:
            res.nontrivial.add(common.digest({"p": prog, "c": cfg}))
        ip = taken(rec, ci) or dc.run_inprocess(project, argv_of(cfg, project, "results"))
        if ip["crash"] is not None or any(l.startswith("Traceback") for l in cl["junk"]):
            res.skipped_outside_fragment += 1
            res.count("skipped:crash")
            continue
        # ---- implementation observations
        ip_events = dc.model_events(ip["events"])
        ip_printed = [[p["level"], ip["events"][p["event"]]["where"] if p["event"] is not None else None]
                      for p in ip["printed"] if p["level"] != "rattr"]
        cli_levels = [l["level"] for l in cl["lines"] if l["level"] != "rattr"]
        stats = dc.parse_stats(cl["stdout"]) if output == "stats" else None
        im = {"exit": cl["exit"], "stdout_nonempty": bool(cl["stdout"].strip()), "stderr_levels": cli_levels,
              "stats": stats, "inproc": {"exit": ip["exit"], "buckets": ip["buckets"],
                                         "stdout_nonempty": bool(ip["stdout"].strip()), "printed": ip_printed,
                                         "n_events": len(ip_events)}}
        res.sample({"case": {"program": prog, "cfg": cfg}, "impl": im})
        res.count(f"cfg:{'strict' if cfg['strict'] else 'lax'}:thr={'0' if cfg['threshold'] == 0 else ('total%+d' % (cfg['threshold'] - total))}")
        res.count(f"exit:{cl['exit']}")
        for e in ip["events"]:
            for sig in event_violations(e):
                res.violations.append({"signature": sig, "case": case, "event": {k: e[k] for k in ("level", "badness", "where", "stage", "line", "message", "before", "after")}})
        if "__error__" in mo:
            res.disagreements.append({"case": case, "impl": im, "model": mo})
            continue
        sp = mo["spec"]
        # ---- correspondence: model vs implementation
        gate = [e for e in ip["events"] if e["stage"] == "post"]
        mm = {"exit": mo["exit"], "output": mo["output"], "buckets": mo["buckets"], "printed": mo["printed"],
              "levels": [p[0] for p in mo["printed"]], "n_events": sp["processed"],
              "gate": sp["gateFails"]}
        ii = {"exit": ip["exit"], "output": bool(ip["stdout"].strip()), "buckets": ip["buckets"], "printed": ip_printed,
              "levels": cli_levels, "n_events": len(ip_events), "gate": bool(gate)}
        diffs = [k for k in mm if mm[k] != ii[k]]
        if cl["exit"] != mo["exit"]:
            diffs.append("cli-exit")
        if bool(cl["stdout"].strip()) != mo["output"]:
            diffs.append("cli-output")
        if stats is not None and [stats["target"], stats["import"], stats["simpl"]] != mo["buckets"]:
            diffs.append("cli-stats")
        if ip_events != evs[:len(ip_events)]:
            diffs.append("event-stream-depends-on-cfg")
        if cl["junk"]:
            diffs.append("cli-unparsed-stderr")
        if diffs:
            res.disagreements.append({"case": case, "fields": diffs, "impl": im, "model": mm})
        res.count("branch:" + ("gate-fatal" if mm["gate"] else "diagnostic-exit" if mo["exit"] == 1 else "exit0"))
        # ---- property oracle: the spec on the real event list vs the real behaviour
        real_exit = cl["exit"]
        if real_exit != sp["exit"]:
            res.violations.append({"signature": "exit-status:" + exit_signature(real_exit, sp["exit"], cfg, evs, sp),
                                   "case": case, "impl": im, "spec": sp})
        elif ip["exit"] != sp["exit"]:
            res.violations.append({"signature": "exit-status:" + exit_signature(ip["exit"], sp["exit"], cfg, evs, sp) + ":in-process",
                                   "case": case, "impl": im, "spec": sp})
        if real_exit == 1 and "fatal" not in cli_levels:
            res.violations.append({"signature": "exit-1-without-a-fatal-line-on-stderr", "case": case, "impl": im, "spec": sp})
        if real_exit == 0 and not cl["stdout"].strip():
            res.violations.append({"signature": "no-output-on-exit-0", "case": case, "impl": im, "spec": sp})
        if real_exit != 0 and cl["stdout"].strip():
            res.violations.append({"signature": "output-printed-on-exit-1", "case": case, "impl": im, "spec": sp})
        if any(dc.LINE_RE.match(raw) for raw in cl["stdout"].splitlines()):
            res.violations.append({"signature": "diagnostic-line-on-stdout", "case": case, "impl": im, "spec": sp})
        real_b = ip["buckets"]
        if real_b != sp["buckets"]:
            which = [k for k, i in BUCKET_IX.items() if real_b[i] != sp["buckets"][i]]
            kind = "lower" if sum(real_b) < sum(sp["buckets"]) else "higher" if sum(real_b) > sum(sp["buckets"]) else "moved"
            res.violations.append({"signature": f"badness-buckets:{'+'.join(which)}:{kind}-than-sum-of-weights:-w-{cfg['warn']}",
                                   "case": case, "impl": im, "spec": sp})
        if stats is not None:
            tb = [stats["target"], stats["import"], stats["simpl"]]
            if tb != sp["buckets"] and tb != real_b:
                res.violations.append({"signature": "stats-table-differs-from-state", "case": case, "impl": im, "spec": sp})
            if stats["true"] != tb[0] + tb[2] or stats["total"] != sum(tb):
                res.violations.append({"signature": "stats-true-badness-not-target-plus-simplification", "case": case, "impl": im, "spec": sp})
        # model-vs-spec self check (the theorems say they agree)
        if mo["exit"] != sp["exit"] or mo["buckets"] != sp["buckets"] or mo["output"] != sp["output"]:
            res.internal_errors.append({"what": "Lean model and Lean spec disagree (contradicts C15_exit/C15_buckets)", "case": case})


def run(tier, seed, build):
    res = common.Result(PID)
    res.rule = ("generated two-file projects (menu of constructs emitting info/warning/error/fatal in target, followed "
                "import and simplification) x 8 configurations (thresholds 0, total-1, total, total+1; --strict; "
                "strict from TOML with and without a threshold) with a random -w each; plus generated projects of up to five "
                "files (target, followed import, modules star-imported by the target / by the import / by a star-imported "
                "module) with module-level constructs (root-context diagnostics, walrus-bound lambdas and namedtuples, "
                "annotated functions) x 5 configurations, replayed as a trace of enter_file blocks and diagnostics with "
                "their active with/try scopes; non-trivial = distinct (program, configuration) whose dry run emits >= 1 diagnostic")
    rng = random.Random(seed)
    n_random = 22 if tier == "quick" else 900
    n_scoped = 12 if tier == "quick" else 300
    progs = fixed_programs() + [dc.gen_program(rng) for _ in range(n_random)]
    rng2 = random.Random(seed * 7919 + 17)
    score, srest = cs.fixed_programs(tier, rng2)
    sprogs = score + srest + [cs.gen_program(rng2) for _ in range(n_scoped)]
    # round 4: re-export chains and option-sensitive diagnostics (own generator state: the programs above stay as they were)
    rng3 = random.Random(seed * 104729 + 71)
    ccore, crand = cs.chain_programs(tier, rng3, n_random=6 if tier == "quick" else 120)
    sprogs = sprogs + ccore + crand
    only = os.environ.get("C15_DEBUG_ONLY")          # debugging aid: "scoped-core" | "scoped" | "flat"
    if only:
        progs = progs if only == "flat" else []
        sprogs = [] if only == "flat" else score if only == "scoped-core" else ccore + crand if only == "chain" else sprogs
    model = common.Model()
    coverage, coverage_fixed = {}, {}
    import time as _time
    phases, _t = {}, _time.time()

    def lap(name):
        nonlocal _t
        phases[name] = round(_time.time() - _t, 1)
        _t = _time.time()

    with dc.scratch_dir("rattr-c15-") as base:
        recs = []
        for i, prog in enumerate(progs):
            project = dc.Project(base / f"p{i}", prog, layout="flat")
            (project.cwd / "strict.toml").write_text("[tool.rattr]\nstrict = true\n")
            try:
                rec = prepare_program(res, project, prog, rng, i)
            except Exception as exc:  # machinery failure, never a violation
                res.internal_errors.append({"what": f"harness exception {type(exc).__name__}: {exc}", "program": prog})
                continue
            if rec is not None:
                recs.append(rec)
        lap("prepare-flat")
        for i, prog in enumerate(sprogs):
            try:
                project = cs.ScopedProject(base / f"s{i}", prog)
                rec = cs.prepare(res, project, prog, rng2, i, sys.modules[__name__])
            except Exception as exc:
                res.internal_errors.append({"what": f"harness exception {type(exc).__name__}: {exc}", "program": prog})
                continue
            if rec is not None:
                rec["fixed"] = i < len(score)
                recs.append(rec)
        lap("prepare-scoped")
        jobs = [(r["project"], argv_of(c, r["project"], o)) for r in recs for c, o in zip(r["cfgs"], r["outputs"])]
        # the CLI subprocesses run from a pool thread; meanwhile this thread makes the in-process runs
        # (they patch module globals, so they stay in one thread; subprocesses get cwd / env explicitly)
        from concurrent.futures import ThreadPoolExecutor
        with ThreadPoolExecutor(max_workers=1) as bg:
            fut = bg.submit(dc.run_cli_many, jobs)
            for r in recs:
                r["ips"] = []
                for c in r["cfgs"]:
                    try:
                        a = argv_of(c, r["project"], "results")
                        r["ips"].append(cs.run_inprocess(r["project"], a) if r.get("scoped") else dc.run_inprocess(r["project"], a))
                    except Exception as exc:
                        r["ips"].append(exc)
            lap("in-process (while the CLI runs)")
            cli = fut.result()
        lap("cli (remaining)")
        mouts = model.batch([("diag_scoped", {"cfg": model_cfg(c), "steps": r["steps"]}) if r.get("scoped") else
                             ("diag_run", {"cfg": model_cfg(c), "events": r["evs"]}) for r in recs for c in r["cfgs"]])
        # round 4: the resolutions / walk elements each scoped program contains, against SimplResolve
        mjobs = [(j["op"], j["payload"]) for r in recs for j in r.get("model_jobs", []) if j["op"]]
        mj_out = iter(model.batch(mjobs)) if mjobs else iter(())
        for r in recs:
            if r.get("model_jobs"):
                try:
                    cs.judge_models(res, r, [next(mj_out) if j["op"] else None for j in r["model_jobs"]])
                except Exception as exc:
                    res.internal_errors.append({"what": f"harness exception {type(exc).__name__}: {exc}", "program": r["prog"]})
        lap("model")
        k = 0
        for r in recs:
            n = len(r["cfgs"])
            try:
                if r.get("scoped"):
                    cs.judge(res, r, cli[k:k + n], mouts[k:k + n], coverage, sys.modules[__name__])
                    if r["fixed"]:
                        coverage_fixed = copy.deepcopy(coverage)
                else:
                    judge_program(res, r, cli[k:k + n], mouts[k:k + n])
            except Exception as exc:
                res.internal_errors.append({"what": f"harness exception {type(exc).__name__}: {exc}", "program": r["prog"]})
            k += n
        lap("judge")
        cs.coverage_report(res, coverage, coverage_fixed)
    res.extra["phase_seconds"] = phases   # information only, never used for a verdict
    if only:
        (common.EVIDENCE / "scratch").mkdir(parents=True, exist_ok=True)
        (common.EVIDENCE / "scratch" / "C15-debug.json").write_text(json.dumps(
            {"disagreements": res.disagreements[:40], "violations": res.violations[:40], "internal": res.internal_errors[:20]},
            indent=1, default=str))
    res.extra["programs_generated"] = len(progs) + len(sprogs)
    res.assumptions = [
        "[interp] 'documented weight' = README/--help table (+0 info, +1 warning, +5 error); the only weightless error is "
        "'unable to resolve builtin module' (explicit badness=0 at its call site, marked as a known limitation there)",
        "[interp] a diagnostic 'arises' in the stage of main it is raised in (simplification) or, during analysis, in the file "
        "holding its AST culprit (told by line-number padding, never by the file name rattr prints or by state.current_file), "
        "else in the file whose AST is being analysed (compile_root_context / FileAnalyser.analyse on a tree that ast.parse "
        "produced from that file's text); diagnostics with neither (import resolution in the BFS loop) are not attributed",
        "[interp] a diagnostic emitted twice (a star-imported module's root context is compiled once for the expansion and "
        "once when the module is followed as an import) counts twice: the statement is about each *emitted* diagnostic",
        "[interp] 'prints the selected output' is judged on stdout lines that are not diagnostic lines; a diagnostic line on "
        "stdout is a violation of its own (diagnostic-line-on-stdout): the run's stdout is the selected output or nothing",
        "the event list of a run that exits early is a prefix of the permissive dry run's list (checked on every run)",
        "strict together with a threshold is only expressible with strict coming from a TOML file (argparse mutex on the CLI)",
    ]
    return res


def replay(path):
    j = json.load(open(path))
    print(json.dumps({k: j[k] for k in j if k not in ("impl", "spec")}, indent=1)[:4000])
    case = j.get("case") or {}
    prog, cfg = case.get("program"), case.get("cfg")
    if not prog or not cfg:
        return 0
    model = common.Model()
    if case.get("layout") == "scoped":
        return replay_scoped(prog, cfg, model)
    with dc.scratch_dir("rattr-c15-replay-") as base:
        project = dc.Project(base / "p", prog, layout=case.get("layout", "flat"))
        (project.cwd / "strict.toml").write_text("[tool.rattr]\nstrict = true\n")
        dry = dc.run_inprocess(project, argv_of(dict(strict=False, threshold=0, warn="all"), project, "results"))
        evs = dc.model_events(dry["events"])
        cl = dc.run_cli(project, argv_of(cfg, project, "stats"))
        mo = model.batch([("diag_run", {"cfg": model_cfg(cfg), "events": evs})])[0]
        print("TARGET:\n" + project.target_path.read_text())
        print("IMPORT (padding stripped):\n" + project.helper_path.read_text().lstrip("\n"))
        print("IMPLEMENTATION: exit", cl["exit"], "stats", dc.parse_stats(cl["stdout"]), "stderr levels", [l["level"] for l in cl["lines"]])
        print("EVENTS:", evs)
        print("MODEL/SPEC:", json.dumps(mo))
    return 0


def replay_scoped(prog, cfg, model):
    with dc.scratch_dir("rattr-c15-replay-") as base:
        project = cs.ScopedProject(base / "p", prog)
        print("LAYOUT:", prog.get("layout", "flat"), "- rattr is started in the project directory on", project.target_arg)
        print("OPTIONS OF THE PROGRAM:", prog.get("options"), "-> argv", project.option_argv, "| [tool.rattr] lines:", repr(cs.option_toml(prog)))
        dry = cs.run_inprocess(project, argv_of(dict(strict=False, threshold=0, warn="all"), project, "results"))
        steps = cs.model_steps(dry)
        cl = dc.run_cli(project, argv_of(cfg, project, "stats"))
        cr = dc.run_cli(project, argv_of(cfg, project, "results"))
        mo = model.batch([("diag_scoped", {"cfg": model_cfg(cfg), "steps": steps})])[0]
        for name, src in project.sources.items():
            print(f"{name.upper()} = {project.paths[name].relative_to(project.cwd)} (starts at line {cs.FID[name] * cs.PAD + 1}; padding stripped):\n" + src.lstrip("\n"))
        print("IMPLEMENTATION: exit", cl["exit"], "stats", dc.parse_stats(cl["stdout"]),
              "stderr", [f"{l['level']}: {l['file']}:{l['line']}" for l in cl["lines"]],
              "| -o results: exit", cr["exit"], "selected output printed:", cs.selected_output(cr["stdout"]))
        print("TRACE (src = file the construct is in, by line padding / the AST being analysed):")
        for s in steps:
            print("   ", s)
        print("MODEL (DiagScope.run) / CONTRACT (Spec on the places the constructs are in):", json.dumps(mo))
    return 0

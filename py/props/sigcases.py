"""C02: the analysed callable's OWN SIGNATURE is not part of its body.

Generators of analysed callables (module-level `def`, `async def`, named lambda — plain and
annotated assignment —, `__init__`, static method; in the target file and in a followed import)
whose parameter DEFAULTS, keyword-only defaults, parameter / return ANNOTATIONS, DECORATORS, PEP 695
type-parameter bounds and — for `__init__` / static methods — class header (bases, keywords, class
decorators) are NON-LITERAL expressions: names, attribute chains, calls (plain, method, chained,
with keyword / starred arguments), subscripts (also subscript-on-subscript and slices), walrus,
lambdas, comprehensions, getattr-family calls, the `sorted` / `defaultdict` plugin calls, class
instantiations, conditional / boolean / arithmetic expressions, f-strings, displays. Every attribute
of a signature expression carries a fresh number, so a reported name maps to one place.

Two generators, three routes:

  * `gen_sig_module` (G1): `bodygen` bodies (every statement kind x expression kind) under rich
    signatures; every `FunctionAnalyser.analyse()` the real `FileAnalyser` starts is captured
    (node + context at that moment) and compared with the Lean model `Callable.analyse`
    (op `analyse_callable`: the model RECEIVES the signature expressions); the justification oracle
    (`accessspec.justification_sets`: body only) judges the real IR.
  * `SigProj` (G2): 1-3 file projects (target + followed imports) of small, mostly call-free
    bodies under rich signatures, "overlap" variants whose body mentions the very expression a
    default mentions (justified by the body: must NOT be flagged) or stores to it (wrong kind);
    through `classentries.run_project`: real FileAnalyser vs op `analyse_file`, the real pipeline
    in-process (target FileIr + every followed import's), the CLI (`-o ir`, `-o results` for the
    entries whose body has no call node — chosen by the source).
  * both kinds of file also go through the capture route.
"""
from __future__ import annotations

import ast
import random
import shutil
import tempfile
from pathlib import Path

import impl
from props import bodygen
from props import classentries
from props import sigspec
from props import visitlib as vl

SIG_HEADER = '''import functools
import typing
from typing import Annotated, Optional

cfg = object()
registry = object()
clock = object()
DEFAULTS = object()
meta = object()
pool = [1, 2]
glob_default = 1

def deco(f):
    return f.wrapped

def mk(v, k=0):
    return v.made

'''

G2_HEADER = '''import collections
from collections import defaultdict, namedtuple

class Bare:
    pass

class Cls:
    def __init__(self, a, b=0):
        self.x = a.cx

NT = namedtuple("NT", ["u", "v"])

def helper(z, w=0):
    return z.secret

''' + SIG_HEADER

BASES = ["cfg", "registry", "clock", "DEFAULTS", "meta"]
LITERALS = ["None", "0", "'s'", "()", "{}", "True", "1.5", "b'x'", "[]"]


class SigExprGen:
    """expressions for signatures; `n` is shared with the body generator so numbers stay unique."""

    def __init__(self, rng, counter):
        self.r = rng
        self.counter = counter       # object with .fresh(prefix)

    def fresh(self, p):
        return self.counter.fresh(p)

    def base(self):
        return self.r.choice(BASES)

    def chain(self):
        r = self.r
        k = r.random()
        b = self.base()
        if k < 0.55:
            return f"{b}.{self.fresh('s')}"
        if k < 0.8:
            return f"{b}.{self.fresh('s')}.{self.fresh('s')}"
        if k < 0.9:
            return f"{b}.{self.fresh('s')}[0]"
        return b

    def default(self, d=0):
        """a non-literal default expression."""
        r = self.r
        C = self.chain
        kinds = ["name", "attr", "attr", "attr2", "call", "methcall", "chaincall", "kwcall", "starcall", "sub", "subsub", "subkey",
                 "slice", "walrus", "lambda", "lambda0", "comp", "getattr", "hasattr", "sorted", "defaultdict", "defaultdict_lam",
                 "cls", "nt", "ifexp", "binop", "boolop", "fstring", "tuple", "dict", "callcall", "nested_getattr", "await_free_gen"]
        if d >= 1:
            kinds = ["attr", "attr2", "sub", "methcall", "name"]
        k = r.choice(kinds)
        D = lambda: self.default(d + 1)  # noqa: E731
        b = self.base()
        if k == "name":
            return r.choice(["glob_default", b])
        if k == "attr":
            return f"{b}.{self.fresh('s')}"
        if k == "attr2":
            return f"{b}.{self.fresh('s')}.{self.fresh('s')}"
        if k == "call":
            return f"mk({D()})"
        if k == "methcall":
            return f"{b}.{self.fresh('m')}()"
        if k == "chaincall":
            return f"{b}.{self.fresh('m')}({D()}).{self.fresh('s')}.{self.fresh('m')}()"
        if k == "kwcall":
            return f"mk({D()}, k={D()})"
        if k == "starcall":
            return f"mk(*{C()}, **{C()})"
        if k == "sub":
            return f"{b}.{self.fresh('s')}[{r.choice(['0', repr('k'), C()])}]"
        if k == "subsub":
            return f"{b}.{self.fresh('s')}[0][{r.choice(['1', C()])}]"
        if k == "subkey":
            return f"{b}[{C()}]"
        if k == "slice":
            return f"{b}.{self.fresh('s')}[{C()}:{C()}]"
        if k == "walrus":
            return f"({self.fresh('w')} := {D()})"
        if k == "lambda":
            q = self.fresh("q")
            return f"(lambda {q}: {q}.{self.fresh('s')} + {C()})"
        if k == "lambda0":
            return f"(lambda: {C()})"
        if k == "comp":
            e = self.fresh("e")
            o, c = r.choice(["[]", "{}", "()"])
            return f"{o}{e}.{self.fresh('s')} for {e} in {C()} if {e}.{self.fresh('s')}{c}"
        if k == "getattr":
            return f"getattr({r.choice([b, C()])}, '{self.fresh('lit')}')"
        if k == "nested_getattr":
            return f"getattr(getattr({b}, '{self.fresh('lit')}'), '{self.fresh('lit')}')"
        if k == "hasattr":
            return f"hasattr({C()}, '{self.fresh('lit')}')"
        if k == "sorted":
            e = self.fresh("e")
            return f"sorted({C()}, key=lambda {e}: {e}.{self.fresh('s')})"
        if k == "defaultdict":
            return f"defaultdict({b}.{self.fresh('s')})"
        if k == "defaultdict_lam":
            return f"collections.defaultdict(lambda: {C()})"
        if k == "cls":
            return r.choice([f"Cls({D()})", "Bare()", f"Cls({D()}, b={D()})"])
        if k == "nt":
            return f"NT({D()}, {D()})"
        if k == "ifexp":
            return f"({D()} if {D()} else {D()})"
        if k == "binop":
            return f"({D()} {r.choice(['+', '*', '|'])} {r.choice(['1', D()])})"
        if k == "boolop":
            return f"({D()} or {r.choice(['None', D()])})"
        if k == "fstring":
            return "f\"{" + D() + "!r:>{" + C() + "}}\""
        if k == "tuple":
            return f"({D()}, [{D()}])"
        if k == "dict":
            return f"{{'k': {D()}, **{C()}}}"
        if k == "callcall":
            return f"mk({D()})({D()})"
        if k == "await_free_gen":
            return f"[*{C()}, {D()}]"
        raise AssertionError(k)

    def annotation(self):
        r = self.r
        C = self.chain
        k = r.choice(["plain", "plain", "string", "attr", "attr", "generic", "optional", "annotated", "subkey", "union", "call",
                      "walrus", "lambda", "list"])
        if k == "plain":
            return r.choice(["int", "str", "object", "typing.Any"])
        if k == "string":
            return repr(r.choice(["Cfg", "registry.Item", "typing.List[int]"]))
        if k == "attr":
            return f"{self.base()}.{self.fresh('T')}"
        if k == "generic":
            return f"typing.Dict[str, {C()}]"
        if k == "optional":
            return f"Optional[{C()}]"
        if k == "annotated":
            return f"Annotated[int, meta.{self.fresh('m')}({C()}, 10)]"
        if k == "subkey":
            return f"{self.base()}.{self.fresh('T')}['k']"
        if k == "union":
            return f"{C()} | None"
        if k == "call":
            return f"mk({C()})"
        if k == "walrus":
            return f"({self.fresh('t')} := {C()})"
        if k == "lambda":
            return f"(lambda: {C()})"
        if k == "list":
            return f"list[{C()}]"
        raise AssertionError(k)

    def decorator(self, hostile=0.0):
        r = self.r
        C = self.chain
        if r.random() < hostile:
            # `get_attrname` cannot name these (TypeError: C07's subject); kept rare
            return r.choice([f"registry.{self.fresh('s')}[0]", f"({self.fresh('dw')} := deco)", "(lambda f: f)"])
        k = r.choice(["name", "attr", "attr2", "call", "call_kw", "call_lam", "wraps", "callcall", "methres"])
        if k == "name":
            return "deco"
        if k == "attr":
            return f"deco.{self.fresh('s')}"
        if k == "attr2":
            return f"{self.base()}.{self.fresh('s')}.{self.fresh('s')}"
        if k == "call":
            return f"deco.{self.fresh('m')}({C()})"
        if k == "call_kw":
            return f"registry.{self.fresh('m')}({self.default(1)}, level={C()})"
        if k == "call_lam":
            q = self.fresh("q")
            return f"deco.{self.fresh('m')}(key=lambda {q}: {q}.{self.fresh('s')} + {C()})"
        if k == "wraps":
            return f"functools.wraps({C()})"
        if k == "callcall":
            return f"deco.{self.fresh('m')}({C()})({C()})"
        if k == "methres":
            return f"registry.{self.fresh('m')}({C()}).{self.fresh('s')}"
        raise AssertionError(k)


class Signature:
    """text pieces of one generated signature + the default expressions (for overlap bodies)."""

    def __init__(self):
        self.params = ""          # inside the parentheses
        self.returns = ""         # "" or " -> X"
        self.decorators = []      # lines without '@'
        self.type_params = ""     # "" or "[T: X]"
        self.defaults = []        # texts of the non-literal default expressions
        self.names = []           # every parameter name, in order


def make_signature(rng, x: SigExprGen, names, *, lambda_=False, self_first=False, p_default=0.75, p_nonlit=0.85, p_ann=0.4,
                   p_ret=0.4, p_deco=0.45, p_tp=0.06, hostile=0.0, allow_star=True):
    """names: the parameter names the body uses (excluding *va / **kw, which are appended here)."""
    r = rng
    s = Signature()
    names = list(names)
    n = len(names)
    first_free = 1 if self_first else 0           # `self` never gets a default
    # split into posonly / plain / kwonly
    n_kwonly = r.choice([0, 0, 1, 1, 2]) if n - first_free >= 2 else r.choice([0, 0, 1]) if n - first_free >= 1 else 0
    n_kwonly = min(n_kwonly, n - first_free)
    pos = names[: n - n_kwonly]
    kwonly = names[n - n_kwonly:]
    n_posonly = r.choice([0, 0, 0, 1, len(pos)]) if pos else 0
    # defaults: a suffix of the positional parameters
    n_def = 0
    free_pos = len(pos) - first_free
    if free_pos > 0 and r.random() < p_default:
        n_def = r.randint(1, free_pos)

    def dflt():
        if r.random() < p_nonlit:
            e = x.default()
            s.defaults.append(e)
            return e
        return r.choice(LITERALS)

    def ann(nm):
        if lambda_ or r.random() >= p_ann or (self_first and nm == names[0]):
            return ""
        return ": " + x.annotation()

    parts = []
    for i, nm in enumerate(pos):
        a = ann(nm)
        piece = nm + a
        if i >= len(pos) - n_def:
            piece += (" = " if a else "=") + dflt()
        parts.append(piece)
        if n_posonly and i == n_posonly - 1:
            parts.append("/")
    va = kw = None
    if allow_star and r.random() < 0.2:
        va = "va"
        parts.append("*va" + ann("va"))
    elif kwonly:
        parts.append("*")
    for nm in kwonly:
        a = ann(nm)
        piece = nm + a
        if r.random() < p_default:
            piece += (" = " if a else "=") + dflt()
        parts.append(piece)
    if allow_star and r.random() < 0.2:
        kw = "kw"
        parts.append("**kw" + ann("kw"))
    s.params = ", ".join(parts)
    s.names = names + ([va] if va else []) + ([kw] if kw else [])
    if not lambda_:
        if r.random() < p_ret:
            s.returns = " -> " + x.annotation()
        while r.random() < p_deco and len(s.decorators) < 3:
            s.decorators.append(x.decorator(hostile))
        if r.random() < p_tp:
            s.type_params = "[" + r.choice([f"T: {x.chain()}", f"T: ({x.chain()}, int)", f"T, *Ts, **P", f"T: mk({x.chain()})"]) + "]"
    return s


# ---------------------------------------------------------------------------------- G1: bodygen bodies


class SigBodyGen(bodygen.BodyGen):
    """`bodygen.BodyGen` whose callables carry rich signatures."""

    def __init__(self, rng, hostile=0.0, sig_hostile=0.0):
        super().__init__(rng, hostile=hostile)
        self.x = SigExprGen(rng, self)
        self.sig_hostile = sig_hostile

    def body_lines(self, lo=1, hi=4):
        body = []
        for _ in range(self.r.randint(lo, hi)):
            body.extend(self.stmt(0))
        return body

    def function(self, name, is_async=None):
        r = self.r
        self.locals = []
        n = r.randint(1, 4)
        self.params = bodygen.PARAM_POOL[:n]
        sig = make_signature(r, self.x, self.params, hostile=self.sig_hostile)
        self.params = list(sig.names)
        body = self.body_lines()
        src = "\n".join(body)
        if is_async is None:
            is_async = "await " in src or "async " in src
        lines = ["@" + d for d in sig.decorators]
        lines.append(f"{'async ' if is_async else ''}def {name}{sig.type_params}({sig.params}){sig.returns}:")
        return "\n".join(lines + ["    " + l for l in body]) + "\n"

    def klass(self, name):
        r = self.r
        x = self.x
        self.locals = []
        isig = make_signature(r, x, ["self", "a", "b"], self_first=True, hostile=self.sig_hostile)
        self.params = list(isig.names)
        init = self.body_lines(1, 3)
        self.locals = []
        ssig = make_signature(r, x, ["v", "w"], hostile=self.sig_hostile)
        self.params = list(ssig.names)
        sm = self.body_lines(1, 3)
        bases = r.choice(["", "", "Bare", f"{x.chain()}", f"Bare, mk({x.chain()})", f"Bare, metaclass={x.chain()}",
                          f"typing.Generic[{x.chain()}]"])
        lines = ["@" + x.decorator() for _ in range(r.choice([0, 0, 1]))]
        lines += [f"class {name}({bases}):" if bases else f"class {name}:", f"    attr_{name} = 1"]
        lines += ["    @" + d for d in isig.decorators]
        lines += [f"    def __init__{isig.type_params}({isig.params}){isig.returns}:"] + ["        " + l for l in init]
        decos = ["staticmethod"] + ssig.decorators
        r.shuffle(decos)
        lines += ["    @" + d for d in decos]
        lines += [f"    def sm{ssig.type_params}({ssig.params}){ssig.returns}:"] + ["        " + l for l in sm]
        # a plain method and a class method: not analysed callables — no entry may appear for them
        msig = make_signature(r, x, ["self", "o"], self_first=True)
        lines += [f"    def meth({msig.params}){msig.returns}:", f"        return o.{self.fresh('a')}"]
        return "\n".join(lines) + "\n"

    def named_lambda(self, name):
        r = self.r
        self.locals = []
        sig = make_signature(r, self.x, ["a", "b"], lambda_=True)
        self.params = list(sig.names)
        body = self.expr(1)
        head = r.choice([f"{name} = ", f"{name} = ", f"{name}: {self.x.annotation()} = "])
        return f"{head}lambda {sig.params}: {body}\n"


def _compiles(src):
    try:
        compile(src, "<gen>", "exec")
        return True
    except SyntaxError:
        return False


def gen_sig_module(rng, n_funcs=3, hostile=0.0, sig_hostile=0.0):
    """bodygen's preamble + the signature header + functions / a class / a named lambda, all with rich signatures."""
    g = SigBodyGen(rng, hostile=hostile, sig_hostile=sig_hostile)
    parts = [bodygen.PREAMBLE, SIG_HEADER]
    for i in range(n_funcs):
        for _ in range(20):
            src = g.function(f"fn{i}")
            if _compiles(src):
                parts.append(src)
                break
    for maker, nm in ((g.klass, "Gen0"), (g.named_lambda, "genlam1")):
        for _ in range(20):
            src = maker(nm)
            if "await " in src or "yield" in src or "async " in src:
                continue
            if _compiles(src):
                parts.append(src)
                break
    return "\n".join(parts)


# ---------------------------------------------------------------------------------- G2: projects of small bodies


class SigProj:
    def __init__(self, rng, sig_hostile=0.0):
        self.r = rng
        self.n = 0
        self.x = SigExprGen(rng, self)
        self.sig_hostile = sig_hostile

    def fresh(self, p):
        self.n += 1
        return f"{p}{self.n}"

    def body(self, params, sig: Signature, call_free):
        """1-3 statements over the parameters; `overlap`: the body mentions a default's own expression."""
        r = self.r
        ps = [p for p in params if p not in ("self",)] or ["glob_default"]
        p = ps[0]
        q = r.choice(ps)
        out = []
        free = [
            lambda: [f"{p}.{self.fresh('g')}"], lambda: [f"{p}.{self.fresh('s')} = {q}.{self.fresh('g')}"],
            lambda: [f"del {p}.{self.fresh('d')}"], lambda: [f"{self.fresh('loc')} = {p}.{self.fresh('g')}"],
            lambda: [f"{p}[0].{self.fresh('i')}"], lambda: [f"for {self.fresh('t')} in {p}.{self.fresh('it')}:", f"    {q}.{self.fresh('e')}"],
            lambda: [f"{p}.{self.fresh('g')}[{q}.{self.fresh('i')}] = 1"], lambda: [f"{q}.{self.fresh('s')} += 1"],
            lambda: [f"with {p}.{self.fresh('cm')} as {self.fresh('h')}:", "    pass"],
            lambda: [f"if {p}.{self.fresh('c')}:", f"    {q}.{self.fresh('s')} = None"],
        ]
        calls = [
            lambda: [f"{p}.m.n({q})"], lambda: [f"print({p}.{self.fresh('a')})"], lambda: [f"getattr({p}, '{self.fresh('ga')}')"],
            lambda: [f"mk({p}.{self.fresh('a')})"], lambda: [f"{self.fresh('inst')} = Cls({p})"], lambda: [f"helper({q})"],
            # nested definitions: THEIR signatures are expressions of this body (the property admits them; rattr reads none)
            lambda: [f"def {self.fresh('inner')}(w, d={p}.{self.fresh('nd')}, *, k: {self.x.annotation()} = {self.x.default(1)}):",
                     f"    return w.{self.fresh('iw')}"],
            lambda: [f"{self.fresh('gl')} = lambda w, d={q}.{self.fresh('ld')}: w.{self.fresh('lw')}"],
            lambda: [f"sorted({p}.{self.fresh('xs')}, key=lambda e: e.{self.fresh('k')})"],
        ]
        for _ in range(r.randint(1, 3)):
            pool = free if (call_free or r.random() < 0.6) else calls
            out += r.choice(pool)()
        # overlap with the own signature: same expression loaded in the body (justified), or stored to (wrong kind)
        chains = [d for d in sig.defaults if _is_plain_chain(d)]
        if chains and r.random() < 0.3:
            d = r.choice(chains)
            out.append(r.choice([d, f"{self.fresh('loc')} = {d}", f"{d} = 1", f"del {d}"]))
        if r.random() < 0.5:
            out.append(f"return {q}.{self.fresh('v')}")
        return out

    def callable(self, kind, name):
        r = self.r
        x = self.x
        call_free = r.random() < 0.6
        if kind in ("def", "async"):
            names = ["a", "b", "c"][: r.randint(1, 3)]
            sig = make_signature(r, x, names, hostile=self.sig_hostile)
            body = self.body(sig.names, sig, call_free)
            lines = ["@" + d for d in sig.decorators]
            lines.append(f"{'async ' if kind == 'async' else ''}def {name}{sig.type_params}({sig.params}){sig.returns}:")
            return lines + ["    " + l for l in body]
        if kind == "lambda":
            sig = make_signature(r, x, ["a", "b"][: r.randint(1, 2)], lambda_=True)
            p = sig.names[0]
            q = sig.names[-1]
            e = r.choice([f"{p}.{self.fresh('g')}", f"({p}.{self.fresh('g')}, {q}[0].{self.fresh('i')})", f"{p}.{self.fresh('g')} + {q}.{self.fresh('g')}",
                          f"mk({p}.{self.fresh('a')})" if not call_free else f"{q}.{self.fresh('g')}.{self.fresh('g')}"])
            head = r.choice([f"{name} = ", f"{name} = ", f"{name}: {x.annotation()} = "])
            return [f"{head}lambda {sig.params}: {e}"]
        if kind == "class":
            isig = make_signature(r, x, ["self", "a", "b"][: r.randint(2, 3)], self_first=True, hostile=self.sig_hostile)
            init = self.body(isig.names, isig, call_free) + [f"self.{self.fresh('f')} = {isig.names[1]}"]
            bases = r.choice(["", "", "Bare", f"{x.chain()}", f"Bare, mk({x.chain()})", f"Bare, metaclass={x.chain()}",
                              f"typing.Generic[{x.chain()}]"])
            lines = ["@" + x.decorator() for _ in range(r.choice([0, 0, 1]))]
            lines += [f"class {name}({bases}):" if bases else f"class {name}:", f"    attr_{name} = 1"]
            if r.random() < 0.85:
                lines += ["    @" + d for d in isig.decorators]
                lines += [f"    def __init__{isig.type_params}({isig.params}){isig.returns}:"] + ["        " + l for l in init]
            for _ in range(r.choice([0, 1, 1, 2])):
                ssig = make_signature(r, x, ["v", "w"][: r.randint(1, 2)], hostile=self.sig_hostile)
                sm = self.body(ssig.names, ssig, call_free)
                decos = ["staticmethod"] + ssig.decorators
                r.shuffle(decos)
                lines += ["    @" + d for d in decos]
                lines += [f"    {'async ' if r.random() < 0.15 else ''}def {self.fresh('sm')}{ssig.type_params}({ssig.params}){ssig.returns}:"]
                lines += ["        " + l for l in sm]
            if r.random() < 0.4:
                msig = make_signature(r, x, ["self", "o"], self_first=True)
                lines += [r.choice(["    @classmethod", "    @property", "    @functools.cache"])] if r.random() < 0.5 else []
                lines += [f"    def {self.fresh('meth')}({msig.params}){msig.returns}:", f"        return o.{self.fresh('a')}"]
            return lines
        raise AssertionError(kind)

    def module(self, imports=(), uses=()):
        r = self.r
        units = []
        kinds = ["def", "def", "async", "lambda", "class"]
        r.shuffle(kinds)
        for k in kinds[: r.randint(3, 5)]:
            name = self.fresh({"def": "fn", "async": "afn", "lambda": "lam", "class": "K"}[k])
            units.append(self.callable(k, name))
        for u in uses:
            units.append(u)
        lines = G2_HEADER.split("\n") + list(imports)
        for u in units:
            src = "\n".join(u)
            if not _compiles(src):
                continue
            lines += src.split("\n") + [""]
        return "\n".join(lines) + "\n"

    def project(self):
        r = self.r
        shape = r.choice(["sig:single", "sig:import", "sig:import", "sig:chain"])
        files = {}
        if shape == "sig:single":
            files["target.py"] = self.module()
        elif shape == "sig:import":
            files["target.py"] = self.module(imports=["import cmod"], uses=[["def use_cmod(a):", f"    return cmod.helper(a.{self.fresh('v')})"]])
            files["cmod.py"] = self.module()
        else:
            files["target.py"] = self.module(imports=["import cmod"])
            files["cmod.py"] = self.module(imports=["import cdeep"])
            files["cdeep.py"] = self.module()
        return files, shape


def _is_plain_chain(text):
    try:
        e = ast.parse(text, mode="eval").body
    except SyntaxError:
        return False
    while isinstance(e, ast.Attribute):
        e = e.value
    return isinstance(e, ast.Name) and "." in text


# the situations of the reviewers' notes, written out (and their siblings): kept small so a replay is readable
CURATED = [
    {"target.py": "DEFAULTS = object()\nregistry = object()\nclock = object()\n\n"
                  "def rescale(sample, factor=DEFAULTS.factor, *, floor=registry.limits[0]):\n    sample.value = sample.raw * factor\n    return sample.value\n\n"
                  "def stamp(event, when=clock.now()):\n    event.at = when\n    return event\n\n"
                  "normalise = lambda item, unit=DEFAULTS.unit: item.size / unit\n"},
    {"target.py": "import typing\ncfg = object()\nmeta = object()\n\ndef deco(f):\n    return f.wrapped\n\n"
                  "@deco.make(cfg.level, key=lambda q: q.rank)\ndef annotated(a: cfg.Types.A, b: typing.Optional[meta.B] = None, *va: cfg.Item, k: 'K' = 0, **kw: cfg.Val) -> meta.Out[cfg.R]:\n"
                  "    return a.used\n\n"
                  "async def fetch(conn, timeout=(t := cfg.net.timeout), *, retries: cfg.Int = cfg.net.retries()):\n    conn.deadline = timeout\n"},
    {"target.py": "cfg = object()\nregistry = object()\n\ndef mk(v):\n    return v.made\n\nclass Bare:\n    pass\n\n"
                  "@registry.register(cfg.kind)\nclass Widget(Bare, mk(cfg.base), metaclass=cfg.Meta):\n    size = 1\n"
                  "    def __init__(self, owner, style=cfg.style.default, *, parent: registry.Node = registry.root()):\n        self.owner = owner.name\n"
                  "    @staticmethod\n    @registry.cache(cfg.ttl)\n    def build(spec, factory=mk(cfg.factory), *, strict=cfg.flags['strict']) -> registry.Widget:\n        return spec.kind\n"
                  "    @registry.cache(cfg.ttl2)\n    @staticmethod\n    def parse(text, sep=cfg.sep):\n        return text.parts\n"
                  "    def method(self, other=cfg.other):\n        return other.x\n"},
    {"target.py": "import cmod\n\ndef use(a):\n    return cmod.rescale(a.sample)\n",
     "cmod.py": "DEFAULTS = object()\nclock = object()\n\ndef rescale(sample, factor=DEFAULTS.factor, when=clock.now()):\n    return sample.raw\n\n"
                "pick = lambda item, unit=DEFAULTS.unit, *, key=lambda e: e.rank: item.size\n"
                "class Job:\n    def __init__(self, spec, queue=DEFAULTS.queue[0]):\n        self.spec = spec.text\n"
                "    @staticmethod\n    def of(v, kind=DEFAULTS.kind):\n        return v.job\n"},
    # the body mentions what the signature mentions: justified by the BODY (no false alarm), right kind only
    {"target.py": "cfg = object()\n\ndef same(a, b=cfg.limit):\n    return a.v + cfg.limit\n\ndef stores(a, b=cfg.mode):\n    cfg.mode = a.m\n\n"
                  "def nested(a):\n    def inner(w, d=a.inner_default, *, k: cfg.K = cfg.k()):\n        return w.x\n    g = lambda w, d=a.lam_default: w.y\n    return a.z\n"},
]


# ---------------------------------------------------------------------------------- the capture route


class SigCase(vl.Case):
    __slots__ = ("cls", "assign", "where", "file")


def _parents(tree):
    pm = {}
    for n in ast.walk(tree):
        for c in ast.iter_child_nodes(n):
            pm[c] = n
    return pm


def capture(src, rel="target.py", project=None, where="sig"):
    """The real FileAnalyser over `src`; every FunctionAnalyser.analyse() it starts is captured at that moment:
    (definition node WITH its signature, the context then, the IR it produced). Returns ([SigCase], [model request])."""
    from rattr.analyser.file import FileAnalyser
    from rattr.analyser.function import FunctionAnalyser
    from rattr.config.state import enter_file
    from rattr.models.context import compile_root_context

    target = Path(rel)
    cases, reqs = [], []
    captured = []
    depth = [0]
    orig = FunctionAnalyser.analyse

    def wrapper(self):
        if depth[0] > 0:
            return orig(self)
        depth[0] += 1
        try:
            op, payload = vl.model_request(self.ast, self.context)
            payload["sig"] = sigspec.model_sig_json(self.ast, vl.enc)
            tap = impl.Tap()
            with tap:
                out = impl.outcome_of(orig, self)
            captured.append((self.ast, ("analyse_callable", payload), self, out, list(tap.events)))
            if out[0] == "ok":
                return out[1]
            if out[0] == "fatal":
                raise SystemExit(out[1])
            raise RuntimeError("crash:" + str(out[1]))
        finally:
            depth[0] -= 1

    def go():
        impl.reset_config(target=target)
        tree = ast.parse(src)
        with impl.Tap(), enter_file(target):
            root = impl.outcome_of(compile_root_context, tree)
            if root[0] != "ok":
                return tree
            FunctionAnalyser.analyse = wrapper
            try:
                impl.outcome_of(lambda: FileAnalyser(tree, root[1]).analyse())
            finally:
                FunctionAnalyser.analyse = orig
        return tree

    if project is not None:
        with impl.in_dir(str(project)):
            tree = go()
    else:
        tree = go()
    pm = _parents(tree)
    for node, req, fa, out, events in captured:
        c = SigCase()
        c.module_src, c.fn, c.file, c.where = src, node, rel, where
        c.name = getattr(node, "name", "<lambda>")
        c.fn_src = ast.unparse(node)
        parent = pm.get(node)
        c.cls = parent if isinstance(parent, ast.ClassDef) else None
        c.assign = parent if isinstance(parent, (ast.Assign, ast.AnnAssign, ast.AugAssign, ast.NamedExpr)) else None
        if c.cls is not None:
            c.fn_src = f"class {c.cls.name}({', '.join(ast.unparse(b) for b in c.cls.bases)}): ...\n" + c.fn_src
        if c.assign is not None:
            c.fn_src = ast.unparse(c.assign)
        ir = fa.func_ir
        diags = [vl.template_of(e) for e in events]
        im = {"gets": vl.names_json(ir["gets"]), "sets": vl.names_json(ir["sets"]), "dels": vl.names_json(ir["dels"]),
              "calls": sorted((vl.canon_call(vl.call_json(k)) for k in ir["calls"]), key=vl.impl_json_key), "diags": diags}
        if out[0] == "ok":
            im["outcome"], im["exc"] = "ok", ""
        elif out[0] == "fatal":
            im["outcome"], im["exc"] = "fatal", (diags[-1][1] if diags else "")
        else:
            im["outcome"], im["exc"] = "crash", out[1]
        c.im, c.events = im, events
        c.mo, c.diff = None, None
        reqs.append(req)
        cases.append(c)
    return cases, reqs


def definition_kind(c):
    if isinstance(c.fn, ast.Lambda):
        return "lambda"
    if c.cls is not None:
        return "init" if c.fn.name == "__init__" else "static"
    return "async-def" if isinstance(c.fn, ast.AsyncFunctionDef) else "def"


def run_stage(res, rng, tier, model):
    """Returns the captured cases (judged by the caller's justification loop). Fills res with the project route."""
    quick = tier == "quick"
    n_g1 = 30 if quick else 500
    n_g2 = 26 if quick else 400
    n_cli = 5 if quick else 40
    all_cases, all_reqs = [], []

    # ---- G1: bodygen bodies under rich signatures, capture route
    for i in range(n_g1):
        src = gen_sig_module(rng, hostile=0.01, sig_hostile=0.03)
        cases, reqs = capture(src, where="sig:g1")
        all_cases += cases
        all_reqs += reqs
        res.count("sig:g1:module")

    # ---- G2: projects, every route
    projects = [(dict(f), "curated") for f in CURATED]
    g = SigProj(rng, sig_hostile=0.02)
    for _ in range(n_g2):
        projects.append(g.project())
    judged = 0
    deferred = []
    tmp = Path(tempfile.mkdtemp(prefix="rattr-c02-sig-"))
    try:
        for pi, (files, shape) in enumerate(projects):
            root = tmp / f"p{pi}"
            root.mkdir()
            want_cli = shape == "curated" or n_cli > 0
            j, used = classentries.run_project(res, model, root, files, shape, pi, want_cli, tag="sig", always_cli=True,
                                               free_by_source=True, nontrivial_kinds=("def", "lambda", "static", "init"),
                                               deferred=deferred)
            judged += j
            if used and shape != "curated":
                n_cli -= 1
            for rel, src in files.items():
                cases, reqs = capture(src, rel=rel, project=root, where="sig:g2:" + ("target" if rel == "target.py" else "import"))
                all_cases += cases
                all_reqs += reqs
        classentries.flush_model(res, model, deferred)
    finally:
        shutil.rmtree(tmp, ignore_errors=True)
    res.extra["signature_entries_judged"] = judged

    outs = model.batch(all_reqs)
    for c, mo in zip(all_cases, outs):
        c.mo = mo
        c.diff = "model error: " + str(mo["__error__"]) if "__error__" in mo else vl.compare(c.im, mo)
        # reach of the generator: which parts of the signature are non-literal for which kind of definition
        kind = definition_kind(c)
        res.count(f"sig:callable:{c.where}:{kind}")
        for part in sorted({p for p, _e in sigspec.own_signature_parts(c.fn, c.cls, c.assign)}):
            res.count(f"sig:part:{kind}:{part}")
        if "__error__" not in mo:
            res.count("sig:model-received-signature-exprs", int(mo.get("sig_exprs", 0) or 0))
    return all_cases

"""C13, symbolic-link stage: package trees whose search path runs through symbolic links.

The other stages build plain directory trees.  Here a logical package tree is realised with links: a
package directory (at any depth) or a module file below a search root is a link to a directory / file
outside every search path (or inside ANOTHER search root, or elsewhere in the same tree), the search
root itself is spelled through a link, links are chained and nested.  `is_dir()` / `exists()` follow
links, so what can be imported is the same as in the plain tree; what links change is the VALUE of a
resolved path.  Demanded (property (c), and (a) for the files reached through (c)):

  * the origin located for a module is the path AS SPELLED below the resolved search root
    (`realpath(root)/a/b.py`) — the file system's first match, judged with `os.path.isfile`;
  * file -> name -> file: `derive_module_name_from_path` of a file of the tree (spelled relative, below
    the spelled root, below the resolved root) gives its dotted name, which locates that origin;
  * name -> file -> name: the file located for a name, entered the way `parse_and_analyse_imports`
    enters a followed import (`enter_file(spec.origin)`) and the way `Context.expand_starred_imports`
    enters a star-imported module (the expression is taken from its source), gets that name back, and a relative
    import inside it resolves as `importlib.util.resolve_name` resolves it for the package the file
    was imported as.

Tie B: the Lean model (`Locator.findModuleInPathAbs`, `specAbs`, `importOriginAbs`, `followBase`,
`starBase` with the resolver `resolveLinks` over the layout's link table, site = `Locator.resolveSite`)
predicts every located origin as an absolute path string, every entered path, base, absolute name and
found module.  `resolveLinks` itself is checked against `os.path.realpath` (mismatch = internal error).
"""
from __future__ import annotations

import os
import random
import shutil
import sys
from pathlib import Path

import common
import impl

from rattr.config import Config
from rattr.config.state import enter_file
from rattr.models.symbol import Import
from rattr.module_locator import util as U

MISSING = "zz"
VOCAB = ["pa", "pb", "ma", "mb", MISSING, "zq", "x", "xa", "xb", "xc", "mid", "fa", "fb", "t", "tl", "r2", "r2l"]

SIG_ORIGIN = "links:origin-not-the-path-as-spelled-below-the-resolved-search-root"
SIG_FOLLOW_NONAME = "links:followed-file-gets-no-module-name"
SIG_FOLLOW_WRONG = "links:followed-file-gets-another-module-name"
SIG_STAR = "star-imported-file-behind-symlink-analysed-under-its-resolved-path"
SIG_REL = "links:relative-import-in-located-file-mis-resolved"
SIG_ESC = "links:escaping-relative-import-in-located-file-not-diagnosed"

ROOT2_FILES = [["pa.py"], ["pb", "__init__.py"], ["pb", "ma.py"], ["zq.py"]]

BASES = [
    [["pa", "__init__.py"], ["pa", "ma.py"], ["pa", "pb", "__init__.py"], ["pa", "pb", "ma.py"],
     ["pa", "pb", "mb.py"], ["pb.py"]],
    [["pa", "__init__.py"], ["pa", "pb", "__init__.py"], ["pa", "pb", "pa", "__init__.py"],
     ["pa", "pb", "pa", "ma.py"], ["pa", "mb.py"], ["pb", "__init__.py"], ["pb", "ma.py"]],
    [["pa", "__init__.py"], ["pa", "pb.py"], ["pa", "pb", "__init__.py"], ["pa", "pb", "ma.py"], ["ma.py"]],
]

KINDS = ["pkg-out", "subpkg-out", "nested-out", "mod-out", "init-out", "root-link", "root2-link", "pkg-into-root2",
         "chain", "alias", "dangling", "abs-target", "pkg-out+root-link"]


def own_name(f):
    if f[-1] == "__init__.py":
        return list(f[:-1]), True
    return list(f[:-1]) + [f[-1][:-3]], False


# ------------------------------------------------------------------ layouts

class Layout:
    """Physical files and links below a base directory; every path a tuple of segments relative to it."""

    def __init__(self, files):
        self.files = {("t",) + tuple(f) for f in files}
        self.links = []            # (link path, target path, "rel" | "abs"), in creation order
        self.root = ("t",)
        self.extra = []            # further search roots (appended to sys.path), as spelled
        self.kinds = []

    # -- a resolver of my own, used only to FIND the physical place of a logical path while building
    def phys(self, p):
        p = tuple(p)
        for _ in range(40):
            for k in range(1, len(p) + 1):
                hit = next((t for l, t, _ in self.links if l == p[:k]), None)
                if hit is not None:
                    p = tuple(hit) + p[k:]
                    break
            else:
                return p
        raise RuntimeError("link loop")

    def dirs_below_root(self):
        """logical package directories (relative to the root) that physically exist as directories"""
        out = set()
        for f in self.logical_files():
            for k in range(1, len(f)):
                out.add(tuple(f[:k]))
        return sorted(out)

    def logical_files(self):
        """files reachable below the spelled root, as relative paths (own computation, links followed)"""
        out = set()
        root = self.phys(self.root)

        def walk(pdir, ldir, depth):
            if depth > 8:
                return
            names = set()
            for f in self.files:
                if f[:len(pdir)] == pdir and len(f) > len(pdir):
                    names.add(f[len(pdir)])
            for l, _, _ in self.links:
                if l[:len(pdir)] == pdir and len(l) == len(pdir) + 1:
                    names.add(l[len(pdir)])
            for n in sorted(names):
                p = self.phys(pdir + (n,))
                if p in self.files:
                    out.add(ldir + (n,))
                elif any(f[:len(p)] == p and len(f) > len(p) for f in self.files):
                    walk(p, ldir + (n,), depth + 1)

        walk(root, (), 0)
        return sorted(out)

    def link_dir(self, ldir, new, style="rel"):
        p = self.phys(self.root + tuple(ldir))
        new = tuple(new)
        moved = {f for f in self.files if f[:len(p)] == p and len(f) > len(p)}
        if not moved:
            return False
        self.files -= moved
        self.files |= {new + f[len(p):] for f in moved}
        # links that lived below the moved directory move with it
        self.links = [((new + l[len(p):]) if l[:len(p)] == p and len(l) > len(p) else l, t, s) for l, t, s in self.links]
        self.links.append((p, new, style))
        return True

    def link_file(self, lfile, new, style="rel"):
        parent = self.phys(self.root + tuple(lfile[:-1]))
        p = parent + (lfile[-1],)
        if p not in self.files:
            return False
        self.files.remove(p)
        self.files.add(tuple(new))
        self.links.append((p, tuple(new), style))
        return True

    def to_json(self):
        return {"files": sorted(list(f) for f in self.files), "links": [[list(l), list(t), s] for l, t, s in self.links],
                "root": list(self.root), "extra": [list(e) for e in self.extra], "kinds": self.kinds}


def apply_kind(L: Layout, kind, rng):
    dirs = L.dirs_below_root()
    logical = [list(f) for f in L.logical_files()]
    tops = [d for d in dirs if len(d) == 1]
    subs = [d for d in dirs if len(d) >= 2]
    mods = [f for f in logical if f[-1] != "__init__.py" and len(f) >= 2]
    inits = [f for f in logical if f[-1] == "__init__.py"]
    n = len(L.links)
    ok = False
    if kind == "pkg-out" and tops:
        ok = L.link_dir(rng.choice(tops), ("x", f"xa{n}"))
    elif kind == "subpkg-out" and subs:
        ok = L.link_dir(rng.choice(subs), ("x", f"xb{n}"))
    elif kind == "nested-out" and subs:
        d = rng.choice(subs)
        ok = L.link_dir(d[:1], ("x", f"xa{n}")) and L.link_dir(d, ("x", f"xc{n}"))
    elif kind == "mod-out" and mods:
        ok = L.link_file(rng.choice(mods), ("x", f"fa{n}.py"))
    elif kind == "init-out" and inits:
        ok = L.link_file(rng.choice(inits), ("x", f"fb{n}.py"))
    elif kind == "root-link":
        if L.root == ("t",):
            L.links.append((("tl",), ("t",), "rel"))
            L.root = ("tl",)
            ok = True
    elif kind == "root2-link":
        if not L.extra:
            L.files |= {("r2",) + tuple(f) for f in ROOT2_FILES}
            L.links.append((("r2l",), ("r2",), "rel"))
            L.extra.append(("r2l",))
            ok = True
    elif kind == "pkg-into-root2" and tops:
        # the link's target lies inside ANOTHER search root, under another dotted name
        if not L.extra:
            L.files |= {("r2",) + tuple(f) for f in ROOT2_FILES}
            L.extra.append(("r2",))
        ok = L.link_dir(rng.choice(tops), ("r2", "pb", "pa"))
    elif kind == "chain" and dirs:
        d = rng.choice(dirs)
        if L.link_dir(d, ("x", f"xa{n}")):
            l, t, s = L.links.pop()
            L.links.append((("x", f"mid{n}"), t, "rel"))
            L.links.append((l, ("x", f"mid{n}"), s))
            ok = True
    elif kind == "alias" and tops:
        free = [nm for nm in ("pb", "pa", "zq") if not any(f[0] == nm or f[0] == nm + ".py" for f in logical)]
        if free:
            d = rng.choice(tops)
            L.links.append((L.phys(L.root) + (free[0],), L.phys(L.root + d), "rel"))
            ok = True
    elif kind == "dangling":
        d = rng.choice([()] + dirs)
        L.links.append((L.phys(L.root + d) + (MISSING + ".py",), ("x", "nowhere.py"), "rel"))
        ok = True
    elif kind == "abs-target" and dirs:
        ok = L.link_dir(rng.choice(dirs), ("x", f"xb{n}"), style="abs")
    elif kind == "pkg-out+root-link" and tops:
        ok = L.link_dir(rng.choice(tops), ("x", f"xa{n}"))
        if ok and L.root == ("t",):
            L.links.append((("tl",), ("t",), "rel"))
            L.root = ("tl",)
    if ok:
        L.kinds.append(kind)
    return ok


def layouts(tier, seed, rng, random_tree):
    out = []
    for bi, base in enumerate(BASES):
        for ki, kind in enumerate(KINDS):
            if tier == "quick" and (bi + ki + seed) % len(BASES) != 0:
                continue        # quick: every kind on one base tree, which one varies with the seed
            L = Layout(base)
            if apply_kind(L, kind, rng):
                out.append(L.to_json())
    n_random = 7 if tier == "quick" else 150
    for _ in range(n_random):
        L = Layout(random_tree(rng))
        for kind in rng.sample(KINDS, rng.choice([1, 2, 2, 3])):
            apply_kind(L, kind, rng)
        if L.links:
            out.append(L.to_json())
    return out


def materialise(base: Path, lay):
    if base.exists():
        shutil.rmtree(base)
    base.mkdir(parents=True)
    for f in lay["files"]:
        p = base.joinpath(*f)
        p.parent.mkdir(parents=True, exist_ok=True)
        p.write_text("")
    for l, t, style in lay["links"]:
        lp = base.joinpath(*l)
        lp.parent.mkdir(parents=True, exist_ok=True)
        tp = base.joinpath(*t)
        text = str(tp) if style == "abs" else os.path.relpath(str(tp), str(lp.parent))
        os.symlink(text, str(lp))


def listing(root: Path):
    """what exists below `root` as Python's own traversal sees it (links followed, dangling links absent)"""
    out = []
    for dp, dns, fns in os.walk(str(root), followlinks=True):
        dns.sort()
        for fn in sorted(fns):
            p = os.path.join(dp, fn)
            if fn.endswith((".pyc", ".pyo")) or not os.path.exists(p):
                continue
            out.append(list(Path(p).relative_to(root).parts))
    return out


def segs(p):
    return [s for s in str(p).split("/") if s]


def link_table(base: Path, lay, roots):
    """[link, target] as absolute segment lists, read back from the disk (`os.readlink`), plus one row
    for every other search root whose own path runs through links"""
    rows = []
    for l, _, _ in lay["links"]:
        lp = base.joinpath(*l)
        text = os.readlink(str(lp))
        tgt = text if os.path.isabs(text) else os.path.normpath(os.path.join(str(lp.parent), text))
        rows.append([segs(lp), segs(tgt)])
    own = {str(base.joinpath(*lay["root"]))} | {str(base.joinpath(*e)) for e in lay["extra"]}
    for r in roots:
        if str(r) not in own and os.path.realpath(str(r)) != str(r):
            rows.append([segs(r), segs(os.path.realpath(str(r)))])
    return rows


# ------------------------------------------------------------------ ops

def make_ops(files, rng):
    pys = [f for f in files if f[-1].endswith(".py")]
    names = []
    for f in pys:
        n, _ = own_name(f)
        if n and n not in names:
            names.append(n)
    ops = []
    for f in pys:
        for mode in (False, True, "real"):
            ops.append({"k": "path", "file": f, "abs": mode})
    for n in names:
        for q in (n, n + ["f"]):
            ops.append({"k": "find", "q": q})
    ops.append({"k": "find", "q": [MISSING]})
    ops.append({"k": "find", "q": ["pa", MISSING]})
    for n in names:
        for star in (False, True):
            combos = [(1, None), (1, ["ma"]), (1, [MISSING]), (2, None), (2, ["ma"]), (len(n) + 1, ["ma"])]
            for level, t in combos:
                ops.append({"k": "follow", "name": n, "star": star, "level": level, "target": t, "clear": True})
    for f in pys:
        for mode, level, t in ((True, 1, None), (True, 1, ["ma"]), (True, 2, ["mb"]), ("real", 1, ["ma"]), (False, 1, None)):
            ops.append({"k": "rel", "clear": True, "file": f, "abs": mode, "level": level, "target": t})
    return ops


def path_string(root: Path, f, mode):
    rel = "/".join(f)
    if mode is False:
        return rel
    if mode == "real":
        return os.path.realpath(str(root)) + "/" + rel
    return str(root) + "/" + rel


def spec_json(H, world, s, roots):
    if s is None:
        return None
    return {"name": s.name.split("."), "origin": world.canon_origin(s.origin, roots),
            "abs": None if s.origin is None else str(s.origin)}


def found_json(H, world, res, roots):
    name, spec = res
    if name is None and spec is None:
        return None
    return {"module": None if name is None else name.split("."), "spec": spec_json(H, world, spec, roots)}


_STAR_EXPR = []


def _star_enter_expr():
    if not _STAR_EXPR:
        from tables import t_c13
        _STAR_EXPR.append(t_c13.star_enter_expression())
    return _STAR_EXPR[0]


def run_impl_op(H, world, root, o, roots):
    # the file-system-dependent caches (pure functions of the layout) were dropped when the layout was
    # built; the memo of derive_absolute_module_name is dropped before every op
    U.derive_absolute_module_name.cache_clear()
    if o["k"] == "rel":
        p = Path(path_string(root, o["file"], o["abs"]))
        target = None if o["target"] is None else ".".join(o["target"])
        with enter_file(p):
            cur = Config().state.current_file
            base = U.derive_module_name_from_path(cur)
            if base is None:
                return {"base": None, "abs": None, "found": None}
            a = U.derive_absolute_module_name(base, target, o["level"])
            found = U.find_module_name_and_spec(a)
        return {"base": base.split("."), "abs": a.split("."), "found": found_json(H, world, found, roots)}
    if o["k"] == "find":
        return {"found": found_json(H, world, U.find_module_name_and_spec(".".join(o["q"])), roots)}
    if o["k"] == "path":
        p = Path(path_string(root, o["file"], o["abs"]))
        n = U.derive_module_name_from_path(p)
        s = None if n is None else U.find_module_spec_fast(n)
        return {"name": None if n is None else n.split("."), "spec": spec_json(H, world, s, roots)}
    if o["k"] == "follow":
        name = ".".join(o["name"])
        s = U.find_module_spec_fast(name)
        out = {"located": spec_json(H, world, s, roots), "entered": None, "base": None, "abs": None, "found": None}
        if s is None or s.origin is None:
            return out
        # parse_and_analyse_imports: `with enter_file(spec.origin)`;
        # Context.expand_starred_imports: `with enter_file(<expr>)` around compile_root_context — <expr> is
        # read from the source of the code under test (Tie A pins its text) and evaluated here, not imitated
        if o["star"]:
            with enter_file(Path("target.py")):     # the symbol is made while the importing file is current
                starred = Import("*", name)
            expr = _star_enter_expr()
            # no block of the source enters anything around the compile: the importing file stays current
            entered = Path("target.py") if expr is None else eval(expr, {"Path": Path, "starred": starred})  # noqa: S307
        else:
            entered = s.origin
        target = None if o["target"] is None else ".".join(o["target"])
        with enter_file(entered):
            cur = Config().state.current_file
            out["entered"] = str(cur)
            base = U.derive_module_name_from_path(cur)
            if base is None:
                return out
            a = U.derive_absolute_module_name(base, target, o["level"])
            found = U.find_module_name_and_spec(a)
        out.update(base=base.split("."), abs=a.split("."), found=found_json(H, world, found, roots))
        return out
    raise ValueError(o)


_STD = {}


def candidate_tops(H, root, ops, entered_paths):
    """every component that can become the FIRST component of a dotted name the model asks the stdlib
    classification about: the components of every path a name is derived from, of every queried name and
    relative target.  (isort classifies by known top-level names: a dotted name is stdlib only if its
    first component is; were that not so, a missing row would show as a correspondence disagreement.)"""
    out = {""}
    for o in ops:
        if o["k"] == "find":
            out.update(o["q"])
        elif o["k"] == "follow":
            out.update(o["name"])
        else:
            out.update(H.path_comps(path_string(root, o["file"], o["abs"])))
        out.update(o.get("target") or [])
    for p in entered_paths:
        out.update(H.path_comps(p))
    return sorted(out)


def model_payload(H, world, base, lay, root, roots, ops, files_by_root):
    entered = set()
    rr = os.path.realpath(str(root))
    for i, r in enumerate(roots):
        for f in files_by_root[i]:
            if f[-1].endswith(".py"):
                spelled = os.path.realpath(str(r)) + "/" + "/".join(f)
                entered.add(spelled)
                entered.add(os.path.realpath(spelled))
    rows = []
    for n in candidate_tops(H, root, ops, sorted(entered)):
        if n and n not in _STD:
            _STD[n] = bool(U.is_in_stdlib(n))
        if n and _STD[n]:
            raise H.OutsideFragment(f"stdlib-classified component {n!r} in the symbolic-link stage")
    mops = []
    for o in ops:
        if o["k"] in ("find", "follow"):
            mops.append(o)
        elif o["k"] == "path":
            mops.append({"k": "path", "comps": H.path_comps(path_string(root, o["file"], o["abs"]))})
        else:
            own, is_init = own_name(o["file"])
            mops.append({"k": "rel", "clear": True, "comps": H.path_comps(path_string(root, o["file"], o["abs"])),
                         "isInit": is_init, "level": o["level"], "target": o["target"], "own": own})
    links = link_table(base, lay, roots)
    # the resolver itself: every search directory, every link, every file as spelled
    probes = [segs(r) for r in roots] + [l for l, _ in links]
    for idx in [0] + list(range(len(roots) - len(lay["extra"]), len(roots))):
        probes += [segs(roots[idx]) + f for f in files_by_root[idx]]
    mops += [{"k": "resolve", "p": p} for p in probes]
    return {"roots": files_by_root, "stdlib": rows, "ops": mops, "dirs": [segs(r) for r in roots], "links": links}, probes


# ------------------------------------------------------------------ judging

def behind_link(roots, m):
    """the first match `m` = [root index, relative file] is reached through a link below its search root"""
    spelled = os.path.realpath(str(roots[m[0]])) + "/" + "/".join(m[1])
    return os.path.realpath(spelled) != spelled


def judge_follow(H, roots, o, im, mo, case, res):
    viol = lambda sig, **kw: res.violations.append({"signature": sig, "case": case, "impl": im, **kw})
    name = o["name"]
    m = H.fs_first_match(roots, name)
    is_init = m is not None and m[1][-1] == "__init__.py"
    py = H.py_resolve(name, is_init, o["level"], o["target"])
    if mo is not None:
        sp = mo["spec"]
        if ("ok" in py) != ("ok" in sp) or ("ok" in py and py["ok"] != sp["ok"]) or ("err" in py and py["err"] != sp["err"]):
            if m is not None:
                res.internal_errors.append({"what": "Spec.pyResolveName (follow) disagrees with importlib.util.resolve_name",
                                            "case": case, "python": py, "spec": sp})
                return
        mm = {k: mo[k] for k in ("located", "entered", "base", "abs", "found")}
        if mm != im:
            res.disagreements.append({"case": case, "impl": im, "model": mm})
    res.count("links-follow:" + ("star" if o["star"] else "spec") + ":" + ("resolves" if "ok" in py else py["err"]))
    if m is None:
        if im["located"] is not None:
            viol("other:resolved-a-name-absent-from-the-search-path")
        return
    expect_abs = os.path.realpath(str(roots[m[0]])) + "/" + "/".join(m[1])
    loc = im["located"]
    if loc is None or loc["origin"] != {"file": m} or loc["abs"] != expect_abs:
        if H.nsdir_shadow(roots, m):
            res.count("verdict:links-nsdir-shadow-skipped")
            return
        viol(SIG_ORIGIN, expected={"file": m, "abs": expect_abs})
        return
    linked = behind_link(roots, m)
    res.count("links-follow-file:" + ("behind-link" if linked else "plain"))
    if im["base"] != name:
        if o["star"] and linked and im["entered"] == os.path.realpath(expect_abs):
            # exactly the rule before 58a9012: the file was entered under the fully resolved origin
            # FIXED in 58a9012 (C13_cex_star_symlink_before_58a9012): the star-expansion entered
            # Import.origin, the fully resolved path
            viol(SIG_STAR, python=py, expected_base=name)
        else:
            viol(SIG_FOLLOW_NONAME if im["base"] is None else SIG_FOLLOW_WRONG, python=py, expected_base=name)
        return
    if "ok" in py:
        if im["abs"] != py["ok"]:
            viol(SIG_REL, python=py)
            return
    elif im["found"] is not None:
        viol(SIG_ESC, python=py)
        return
    res.count("verdict:holds")


def judge_origin_literal(H, roots, o, im, case, res):
    """a located origin must be spelled `realpath(root)/<relative file>`: checked on the string itself"""
    specs = []
    if o["k"] == "path":
        specs.append(im.get("spec"))
    else:
        f = im.get("found")
        specs.append(None if f is None else f.get("spec"))
    for s in specs:
        if s is None or not isinstance(s.get("origin"), dict) or "file" not in s["origin"]:
            if s is not None and s.get("origin") is not None and "ext" in s["origin"] and o["k"] == "path":
                pass
            continue
        i, rel = s["origin"]["file"]
        expect = os.path.realpath(str(roots[i])) + "/" + "/".join(rel)
        if s["abs"] != expect:
            res.violations.append({"signature": SIG_ORIGIN, "case": case, "impl": im, "expected": expect})


# ------------------------------------------------------------------ the stage

def roots_for(world, base, lay):
    root = base.joinpath(*lay["root"])
    # the caller has appended the layout's extra roots to sys.path
    cand = [str(root), str(common.REPO)] + list(sys.path[1:])
    return root, [Path(c) for c in cand if c and Path(c).exists()]


class Prepared:
    pass


def prepare_layout(H, world, base, lay, ops, res):
    """Build the layout below `base`, read it back (listing, links) and make the model's payload."""
    materialise(base, lay)
    pr = Prepared()
    pr.base, pr.lay = base, lay
    pr.extra = [str(base.joinpath(*e)) for e in lay["extra"]]
    pr.case_base = {"stage": "links", "layout": lay}
    sys.path.extend(pr.extra)
    try:
        pr.root, pr.roots = roots_for(world, base, lay)
        with impl.in_dir(str(pr.root)):
            real = [str(p.resolve()) for p in U.iter_python_path_dirs()]
        if real != [os.path.realpath(str(r)) for r in pr.roots]:
            res.internal_errors.append({"what": "links stage: search roots differ from the documented order",
                                        "mine": [str(r) for r in pr.roots], "real": real})
            return None
        files0 = listing(pr.root)
        n_extra = len(lay["extra"])
        n = len(pr.roots)
        files_by_root = [files0] + [world.vocab_files(r, sorted(set(VOCAB))) for r in pr.roots[1:n - n_extra]] + \
            [listing(r) for r in pr.roots[n - n_extra:]]
        pr.ops = ops if ops is not None else make_ops(files0, random.Random(0))
        try:
            pr.payload, pr.probes = model_payload(H, world, base, lay, pr.root, pr.roots, pr.ops, files_by_root)
        except H.OutsideFragment:
            res.skipped_outside_fragment += len(pr.ops)
            return None
    finally:
        for e in pr.extra:
            sys.path.remove(e)
    return pr


class Canon:
    """`World.canon_origin` with the resolved roots computed once per layout"""

    def __init__(self, roots):
        self.rs = [os.path.realpath(str(r)) for r in roots]

    def canon_origin(self, origin, roots):
        if origin is None:
            return None
        t = str(origin)
        for i, rs in enumerate(self.rs):
            if t.startswith(rs + os.sep):
                return {"file": [i, list(Path(t).relative_to(rs).parts)]}
        return {"ext": t}


def execute_layout(H, world, pr, mo_all, res):
    case_base = pr.case_base
    if not isinstance(mo_all, list):
        res.disagreements.append({"case": case_base, "model": {"__error__": str(mo_all)[:400]}})
        return
    # the resolver of the model against the real one
    for p, r in zip(pr.probes, mo_all[len(pr.ops):]):
        want = os.path.realpath("/" + "/".join(p))
        if r.get("r") != want:
            res.internal_errors.append({"what": "Locator.resolveLinks disagrees with os.path.realpath",
                                        "case": case_base, "path": p, "model": r, "realpath": want})
            return
    res.count("links-layouts")
    for k in pr.lay["kinds"]:
        res.count("links-kind:" + k)
    roots = pr.roots
    canon = Canon(roots)
    sys.path.extend(pr.extra)
    try:
        with impl.in_dir(str(pr.root)):
            impl.reset_config(target=Path("target.py"))
            impl.clear_caches_fast()
            for idx, o in enumerate(pr.ops):
                res.evaluations += 1
                case = dict(case_base, op=o)
                im = run_impl_op(H, canon, pr.root, o, roots)
                mo = mo_all[idx]
                res.count("links-op:" + o["k"])
                res.nontrivial.add(common.digest(case))
                if o["k"] == "follow":
                    judge_follow(H, roots, o, im, mo, case, res)
                else:
                    before = len(res.violations)
                    H.judge(world, roots, o, im, mo, case, res, [])
                    if len(res.violations) == before:
                        judge_origin_literal(H, roots, o, im, case, res)
                if len(res.samples) < 9 and o["k"] == "follow" and o["star"] and idx % 11 == 0:
                    res.sample({"case": case, "impl": im}, cap=9)
    finally:
        for e in pr.extra:
            sys.path.remove(e)


def run_stage(H, world, res, tier, seed, model):
    top = world.base / "lk"
    rng = random.Random(seed * 104729 + 7)
    lays = layouts(tier, seed, rng, lambda r: H.files_of(H.random_tree(r, 2, ["pa", "pb"])))
    seen = set()
    prepared = []
    for lay in lays:
        key = common.canon(lay)
        if key in seen:
            continue
        seen.add(key)
        pr = prepare_layout(H, world, top / f"n{len(seen)}", lay, None, res)
        if pr is not None:
            prepared.append(pr)
    outs = model.batch([("locator", pr.payload) for pr in prepared])
    for pr, mo_all in zip(prepared, outs):
        execute_layout(H, world, pr, mo_all, res)
    res.extra["links_layouts"] = len(prepared)
    shutil.rmtree(top, ignore_errors=True)


def replay_case(H, world, case):
    import json
    res = common.Result("C13")
    pr = prepare_layout(H, world, world.base / "lk" / "n0", case["layout"], [case["op"]], res)
    if pr is not None:
        execute_layout(H, world, pr, common.Model().batch([("locator", pr.payload)])[0], res)
    print("LAYOUT files:", ["/".join(f) for f in case["layout"]["files"]])
    print("LAYOUT links:", [f"{'/'.join(l)} -> {'/'.join(t)} ({s})" for l, t, s in case["layout"]["links"]],
          "root:", "/".join(case["layout"]["root"]), "extra roots:", ["/".join(e) for e in case["layout"]["extra"]])
    print("VIOLATIONS:", json.dumps(res.violations, indent=1, default=str)[:4000])
    print("DISAGREEMENTS:", json.dumps(res.disagreements, indent=1, default=str)[:3000])
    print("INTERNAL:", json.dumps(res.internal_errors, indent=1, default=str)[:2000])
    return 0

"""C05 — the project stages (see c05proj.py): order / unrelated code over whole projects, local names
spelt like module-level names, analyses repeated in one interpreter, hash seeds through the CLI."""
from __future__ import annotations

import random
from concurrent.futures import ThreadPoolExecutor

import common
from props import c03
from props import c05local as cl
from props import c05proj as cp

RULE = ("Project stages: generated projects (target + 0-2 followed local modules, plain / from / aliased imports, chains; "
        "functions and classes, tree-shaped call graph across the files, bare-parameter arguments; function bodies that bind / "
        "unbind / use a LOCAL name spelt like a module-level function, class, import or variable in 20 forms) — every variant "
        "(definitions permuted in the target / in an import / everywhere; unrelated definitions added to the target or to an "
        "import, with fresh names and with names equal to a definition of ANOTHER file; everything a root does not call removed) "
        "must give every function of the target the base project's results; single-file projects run through the real main() and "
        "the Lean whole-pipeline model (op pipeline), multi-file ones through the real main() with imports followed and the Lean "
        "result-generation model over all files (op results). History stage: every corpus / generated single-file program "
        "transplanted into a followed import with every function wrapped by two targets A and B, and free-mode projects "
        "(diamonds, shared parameter names, compound arguments): the histories A,A (as main() and as a library) / A,B,A / B,A,B in "
        "ONE fresh interpreter, no cache cleared; every step must equal the same analysis done first in a fresh interpreter. "
        "A sample of projects through the real CLI under several PYTHONHASHSEED values. non-trivial also = distinct project. "
        "Local-name stage (c05local.py): every way Python binds a name in a function (parameters of every kind of the function / "
        "a lambda / a nested def / an initialiser / a static method / a module-level lambda, comprehension, for, with, except, "
        "walrus, assignment, match-capture targets, nested def / class) x what is done through the bound name (bare / keyword / "
        "dotted call) x an UNRELATED module-level definition of the same name (function, async function, class, class with a "
        "static method, lambda, variable, stdlib import, import of a followed module or of its function) added before / between / "
        "after, in the target, in the followed import the function lives in, in the target of such an import, arriving through "
        "`from lib import *`: CPython's symtable must say the name is not a global of the function, and the function's results "
        "must not change; single-file cases through the real main() AND the Lean whole-pipeline model, a sample through the CLI")


def _diff_names(base_doc, doc, compared):
    names = compared if compared is not None else list(base_doc)
    return [x for x in names if doc.get(x) != base_doc.get(x)]


def project_stage(res, rng, n_single, n_multi, model, tp):
    """order / unrelated code over projects."""
    # ---------------- single-file projects: real main + whole-pipeline model
    srcs, meta = [], []
    for i in range(n_single):
        proj = cp.ProjGen(rng, mode="clean", structure="single").build()
        srcs.append(proj.files()["target.py"])
        meta.append((i, "base", None, proj))
        for kind, files, compared in cp.variants_of(rng, proj):
            srcs.append(files["target.py"])
            meta.append((i, kind, compared, proj))
    outs = cp.pipeline_batch(model, srcs)
    base = {}
    for (i, kind, compared, proj), src, o in zip(meta, srcs, outs):
        res.evaluations += 1
        case = {"stage": "project:single-file", "variant": kind, "files": {"target.py": src}, "features": sorted(proj.features)}
        if "im" not in o:
            res.skipped_outside_fragment += 1
            res.count("project:single:skipped:" + o["skipped"][:40])
            continue
        if o.get("diff"):
            res.disagreements.append({"case": case, "diff": o["diff"][:2000]})
        im = o["im"]
        res.count("project:single:outcome:" + im["outcome"])
        if kind == "base":
            base[i] = (im, src)
            if im["outcome"] == "ok":
                res.nontrivial.add(common.digest(src))
            for f in proj.features:
                res.count("project:feature:" + f)
            continue
        if i not in base:
            continue
        bim, bsrc = base[i]
        judge_variant(res, "single-file", kind, compared, bim, im, {"target.py": bsrc}, {"target.py": src}, proj)

    # ---------------- multi-file projects: real main (imports followed) + results model over all files
    batch, bmeta = [], []
    for i in range(n_multi):
        proj = cp.ProjGen(rng, mode="clean", structure=rng.choice(cp.STRUCTURES[1:])).build()
        files = proj.files()
        d = tp.new(files)
        b = cp.run_main(d, capture=True)
        res.evaluations += 1
        res.count("project:structure:" + proj.structure)
        for f in proj.features:
            res.count("project:feature:" + f)
        if b["outcome"] == "ok":
            res.nontrivial.add(common.digest(files))
        queue_model(batch, bmeta, b, {"stage": "project:multi-file", "variant": "base", "files": files}, res)
        for kind, vfiles, compared in cp.variants_of(rng, proj):
            cp.write_files(d, vfiles)
            v = cp.run_main(d, capture=True)
            res.evaluations += 1
            queue_model(batch, bmeta, v, {"stage": "project:multi-file", "variant": kind, "files": vfiles}, res)
            judge_variant(res, "multi-file", kind, compared, b, v, files, vfiles, proj)
    for (case, snap, rnd), mo in zip(bmeta, model.batch(batch)):
        d = cp.compare_round(snap, rnd, mo)
        if d is not None:
            res.disagreements.append({"case": case, **d})


def queue_model(batch, bmeta, run, case, res):
    snap, rnd = run.get("snap"), run.get("round")
    if snap is None or rnd is None:
        return
    if not cp.snapshot_usable(snap):
        res.count("project:results-model:skipped")
        return
    res.count("project:results-model:compared")
    res.count("project:results-model:keys-from-imports", len(snap["fns"]) - len(snap["order"]))
    batch.append(("results", {**cp.model_payload(snap), "rounds": 1}))
    bmeta.append((case, cp.model_payload(snap), rnd))


def judge_variant(res, where, kind, compared, b, v, files, vfiles, proj):
    k0 = kind.split(":")[0]
    if b["outcome"] != v["outcome"]:
        res.count(f"project:{k0}:outcome-differs")
        res.violations.append({"signature": f"{cp.BASE_SIG}:project:{kind}:outcome",
                               "case": {"stage": "project:" + where, "variant": kind, "base_files": files, "files": vfiles},
                               "outcomes": [b["outcome"], v["outcome"]]})
        return
    if b["outcome"] != "ok":
        return
    diff = _diff_names(b["doc"], v["doc"], compared)
    if not diff:
        res.count(f"project:{k0}:same")
        return
    res.count(f"project:{k0}:differs")
    res.violations.append({"signature": f"{cp.BASE_SIG}:project:{kind}",
                           "case": {"stage": "project:" + where, "variant": kind, "base_files": files, "files": vfiles,
                                    "features": sorted(proj.features)},
                           "functions": diff, "base": {n: b["doc"].get(n, "<not reported at all>") for n in diff[:4]},
                           "variant": {n: v["doc"].get(n, "<not reported at all>") for n in diff[:4]}})


def history_stage(res, rng, n_rand, n_proj, tp, hashseed):
    cases = cp.history_cases(rng, c03.CORPUS, n_rand, n_proj)
    jobs = []
    for label, files, a, b in cases:
        d = tp.new(files)
        for style, hist in (("main", (a, a)), ("library", (a, a)), ("main", (a, b, a)), ("main", (b, a, b))):
            jobs.append((label, files, d, style, hist))
    with ThreadPoolExecutor(max_workers=16) as ex:
        outs = list(ex.map(lambda j: cp.history_run(j[2], j[4], style=j[3], hashseed=hashseed), jobs))
        # the reference is also what the real CLI prints (a sample)
        sample = cases[:: max(1, len(cases) // 6)][:8]
        clis = list(ex.map(lambda c: cp.cli_run(tp_dir(jobs, c[0]), c[2], hashseed=hashseed), sample))
    by = {}
    for j, o in zip(jobs, outs):
        by.setdefault(j[0], (j[1], {}))[1][(j[3], j[4])] = o
    for label, (files, runs) in by.items():
        viol, errs, n = cp.judge_history(label, files, runs)
        res.evaluations += n
        res.count("history:steps", n)
        res.count("history:cases")
        res.nontrivial.add(common.digest(files))
        res.internal_errors.extend(errs)
        for v in viol:
            res.count("history:differs")
        res.violations.extend(viol)
    for c, cli in zip(sample, clis):
        runs = by[c[0]][1]
        first = runs[("main", (c[2], c[2]))]
        if "steps" not in first:
            continue
        res.evaluations += 1
        st = first["steps"][0]
        if (cli["outcome"] == "ok") != (st["outcome"] == "ok") or cli["doc"] != st["doc"]:
            res.count("history:cli-differs-from-library")
            res.violations.append({"signature": f"{cp.HIST_SIG}:first-analysis-as-a-library-differs-from-the-command-line",
                                   "case": {"label": c[0], "files": c[1], "target": c[2]}, "cli": cli, "library": st})
        else:
            res.count("history:cli-same")


def tp_dir(jobs, label):
    return next(j[2] for j in jobs if j[0] == label)


def hashseed_stage(res, rng, n, seeds, tp):
    projs = []
    for i in range(n):
        proj = cp.ProjGen(rng, mode=rng.choice(["clean", "free"]), structure=rng.choice(cp.STRUCTURES[1:])).build()
        files = proj.files()
        projs.append((f"project{i}:{proj.structure}", files, tp.new(files)))
    jobs = [(label, d, hs) for label, files, d in projs for hs in seeds]
    with ThreadPoolExecutor(max_workers=16) as ex:
        outs = list(ex.map(lambda j: cp.cli_run(j[1], hashseed=j[2]), jobs))
    by = {}
    for (label, d, hs), o in zip(jobs, outs):
        by.setdefault(label, []).append((hs, o))
    for label, files, d in projs:
        res.evaluations += len(seeds)
        distinct = {common.canon((o["outcome"], o["doc"])) for _, o in by[label]}
        if len(distinct) == 1:
            res.count("hashseed:project:same")
            # … and the in-process run used by the other stages prints the same document
            ip = cp.run_main(d)
            o = by[label][0][1]
            if (ip["outcome"] == "ok") != (o["outcome"] == "ok") or ip["doc"] != o["doc"]:
                res.internal_errors.append({"what": "in-process main() and the CLI disagree", "files": files,
                                            "cli": o, "in_process": ip})
        else:
            res.count("hashseed:project:differs")
            res.violations.append({"signature": "results-depend-on-hash-seed:project",
                                   "case": {"project": label, "files": files, "outputs": sorted(distinct)[:3]}})


def local_name_stage(res, rng, quick, model, tp, hashseed):
    """unrelated definitions named like a name the function binds locally (props/c05local.py)."""
    rows = cl.quick_rows(rng) if quick else cl.full_rows(rng)
    # ---------------- single files: real main (-f 0) + the whole-pipeline model
    cases, srcs, index = [], [], {}

    def src_id(src):
        if src not in index:
            index[src] = len(srcs)
            srcs.append(src)
        return index[src]

    for form, use, kind, name, place in rows:
        base, var = cl.single_file_case(form, use, kind, name, place)
        ex = cl.extra_statements_of(form, "host")
        cls = cl.binder_class(var, "host", name, ex)
        res.evaluations += 1
        if cl.python_says_global(var, "host", name, ex) or not cls:
            res.internal_errors.append({"what": "local-name generator: CPython resolves the name to the module (or nothing binds it)",
                                        "form": form, "source": var})
            continue
        cases.append({"form": form, "use": use, "kind": kind, "name": name, "place": place, "cls": cls,
                      "b": src_id(base), "v": src_id(var)})
    outs = cp.pipeline_batch(model, srcs)
    reported = set()
    for o, src in zip(outs, srcs):
        if "im" in o and o.get("diff"):
            res.disagreements.append({"case": {"stage": "local-name:single-file", "files": {"target.py": src}}, "diff": o["diff"][:2000]})
    for c in cases:
        ob, ov = outs[c["b"]], outs[c["v"]]
        label = f"{c['cls']}|{c['use']}|{c['kind']}"
        if "im" not in ob or "im" not in ov or "mo" not in ob or "mo" not in ov:
            res.skipped_outside_fragment += 1
            res.count("local-name:single:skipped:" + (ob.get("skipped") or ov.get("skipped") or "?")[:40])
            continue
        res.count("local-name:binder:" + c["cls"])
        res.count("local-name:unrelated:" + c["kind"])
        res.count("local-name:use:" + c["use"])
        res.nontrivial.add(common.digest(srcs[c["v"]]))
        judge_local(res, "single-file", c, ob["im"], ov["im"], {"target.py": srcs[c["b"]]}, {"target.py": srcs[c["v"]]},
                    ["host", "control"], pinned=not (ob.get("diff") or ov.get("diff")))
    # ---------------- projects: real main with imports followed + the result-generation model over all files
    batch, bmeta = [], []
    prows = cl.project_rows(rng, 6 if quick else 80)
    for c in prows:
        src = c["files"][c["host_file"]] if c["host_file"] in c["files"] else c["base_files"][c["host_file"]]
        ex = cl.extra_statements_of(c["form"], "host")
        c["cls"] = cl.binder_class(src, "host", c["name"], ex)
        res.evaluations += 2
        # CPython's verdict is taken on the file of the host WITH the definition visible in it (for the star layout:
        # the definition pasted into the target, which is what `from liba import *` amounts to)
        probe = src if c["layout"] != "unrelated-arrives-by-star-import" else cl.unrelated_source(c["kind"], c["name"]) + "\n" + src.replace("from liba import *", "")
        if cl.python_says_global(probe, "host", c["name"], ex) or not c["cls"]:
            res.internal_errors.append({"what": "local-name generator: CPython resolves the name to the module (or nothing binds it)",
                                        "layout": c["layout"], "source": probe})
            continue
        d = tp.new(c["base_files"])
        b = cp.run_main(d, capture=True)
        cp.write_files(d, c["files"])
        v = cp.run_main(d, capture=True)
        c["dir"] = d
        res.count("local-name:layout:" + c["layout"])
        res.nontrivial.add(common.digest(c["files"]))
        queue_model(batch, bmeta, b, {"stage": "local-name:project", "variant": "base", "files": c["base_files"]}, res)
        queue_model(batch, bmeta, v, {"stage": "local-name:project", "variant": c["layout"], "files": c["files"]}, res)
        judge_local(res, c["layout"], c, b, v, c["base_files"], c["files"], c["compared"], pinned=True)
    for (case, snap, rnd), mo in zip(bmeta, model.batch(batch)):
        d = cp.compare_round(snap, rnd, mo)
        if d is not None:
            res.disagreements.append({"case": case, **d})
    # ---------------- the same through the real command line (a sample; parameters first: they are never excused)
    sample = [c for c in cases if cl.is_parameter_class(c["cls"]) and c["use"] != "dotted-call"]
    rng.shuffle(sample)
    sample = sample[: (8 if quick else 60)]
    jobs = []
    for c in sample:
        for which in ("b", "v"):
            jobs.append((c, which, tp.new({"target.py": srcs[c[which]]})))
    with ThreadPoolExecutor(max_workers=16) as ex:
        clis = list(ex.map(lambda j: cp.cli_run(j[2], hashseed=hashseed, follow=0), jobs))
    for (c, which, d), cli in zip(jobs, clis):
        c["cli_" + which] = cli
    for c in sample:
        res.evaluations += 2
        judge_local(res, "single-file:command-line", c, c["cli_b"], c["cli_v"], {"target.py": srcs[c["b"]]},
                    {"target.py": srcs[c["v"]]}, ["host", "control"], pinned=True)
        ip = outs[c["v"]].get("im")
        if ip is not None and (ip["outcome"] == "ok") == (c["cli_v"]["outcome"] == "ok") and ip["outcome"] == "ok" \
                and ip["doc"] != c["cli_v"]["doc"]:
            res.internal_errors.append({"what": "in-process main() and the CLI disagree", "files": {"target.py": srcs[c["v"]]},
                                        "cli": c["cli_v"], "in_process": ip["doc"]})


def judge_local(res, where, c, b, v, files, vfiles, compared, pinned):
    case = {"stage": "local-name:" + where, "variant": f"unrelated:{c['kind']}:{c['place']}", "base_files": files, "files": vfiles,
            "binder": c["cls"], "use": c["use"], "name": c["name"], "form": c["form"]}
    bo, vo = b["outcome"], v["outcome"]
    if bo != vo or bo != "ok":
        if bo != vo:
            res.count("local-name:outcome-differs")
            res.violations.append({"signature": cl.signature(c["cls"], c["use"], c["kind"], pinned) + ":outcome", "case": case,
                                   "outcomes": [bo, vo]})
        else:
            res.count("local-name:not-analysed:" + str(bo)[:30])
        return
    diff = [x for x in compared if x in b["doc"] and v["doc"].get(x) != b["doc"].get(x)]
    missing = [x for x in compared if x not in b["doc"]]
    if missing:
        res.internal_errors.append({"what": "local-name stage: compared function not in the base document", "missing": missing, "case": case})
        return
    if not diff:
        res.count("local-name:same")
        return
    res.count("local-name:differs:" + ("parameter" if cl.is_parameter_class(c["cls"]) else c["cls"]))
    res.violations.append({"signature": cl.signature(c["cls"], c["use"], c["kind"], pinned), "case": case, "functions": diff,
                           "base": {n: b["doc"].get(n) for n in diff}, "variant": {n: v["doc"].get(n, "<not reported at all>") for n in diff}})


def run_all(res, tier, seed, model):
    quick = tier == "quick"
    tp = cp.TempProjects()
    try:
        project_stage(res, random.Random(seed * 7919 + 11), 10 if quick else 60, 22 if quick else 150, model, tp)
        history_stage(res, random.Random(seed * 7919 + 12), 6 if quick else 40, 6 if quick else 40, tp, hashseed=seed % 5)
        hashseed_stage(res, random.Random(seed * 7919 + 13), 5 if quick else 30, [0, 1, 2] if quick else list(range(8)), tp)
        local_name_stage(res, random.Random(seed * 7919 + 14), quick, model, tp, hashseed=seed % 5)
        from props import c05reexport
        c05reexport.run_all(res, tier, seed, model, tp)
    finally:
        tp.close()

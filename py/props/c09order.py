"""C09 stage O — the call records of a function do not depend on what the OTHER functions of its file do.

All functions of a file are analysed against ONE shared root context object, in source order. A
function that binds a local named like a module-level class / function / lambda / builtin / import
(assignment, annotated assignment, loop or with target, walrus, unpacking, parameter, nested def,
except-as, comprehension target) and unbinds it again (`del N`, `del (N, x)`, `del [N]`, inside an
`if` / loop, twice, ...) must leave that object as it found it: the functions AFTER it construct the
class / call the function exactly as they would in a file without it.

Generated file = preamble (classes with / without initialiser, two namedtuple declarations, function,
named lambda, imported function; builtins) + one user BEFORE the shadowing function (control) + the
shadowing function (hosts: def, async def, class initialiser, static method, nested def, lambda) + the
users AFTER it: constructor calls in the three contexts (assigned to name / attribute / annotated /
walrus; returned bare / inside containers; discarded as statement / argument / display / with-item)
and plain calls.

Judged, per user function,
  (1) by the syntactic call-site oracle of the main stage (`judge_function`: instance stand-in from the
      syntax alone, positionals in order, keywords by name) — the property as written;
  (2) against the records the same function gets in the file WITHOUT the shadowing function
      (`call-records-depend-on-other-functions:*`) — Lean: `C09_records_independent_of_earlier_functions`;
  (3) Tie B: op `analyse_file` on the whole file == the real FileAnalyser (FileIr, diagnostics, the
      context as the walk leaves it).
Channels: the real `FileAnalyser` in-process on the target file; `python -m rattr -o ir` on the file;
`-o ir` with the file as a FOLLOWED IMPORT of another target (records read from `import_irs`).
"""
from __future__ import annotations

import ast
import json
import random
import shutil
import tempfile
from pathlib import Path

import common
from props import accessspec as spec
from props import visitlib as vl

PREAMBLE = '''from collections import namedtuple
from solo import solo_fn


class Cls:
    def __init__(self, p, q=None, *rest, k=None):
        self.cp = p
        self.cq = q.iq


class Bare:
    pass


point = namedtuple("point", ["x", "y"])
NT = namedtuple("NT", "u v")


def helper(z, w=0):
    return z.hz


lam = lambda m: m.lm
'''

CLASSES = ("Cls", "Bare", "point", "NT")
# (name, kind of module-level symbol, keyword its callee accepts)
NAMES = [("Cls", "class-init", "k"), ("Bare", "class-bare", None), ("point", "namedtuple-lower", None),
         ("NT", "namedtuple", None), ("helper", "function", "w"), ("lam", "lambda", None),
         ("max", "builtin", None), ("solo_fn", "imported-function", None)]
KIND = {n: k for n, k, _ in NAMES}

ARGS = ["a", "b", "a.p", "b.q.r", "a[0]", "b.m()", "1", "'s'", "(a, b)", "a.n + 1", "*a.rest", "b.items[a.i].v"]

# ------------------------------------------------------------------ the shadowing function

BINDERS = {
    "assign": lambda n: [f"{n} = a.v1"],
    "annassign": lambda n: [f"{n}: int = a.v1"],
    "for": lambda n: [f"for {n} in a.items:", f"    b.acc = {n}.v2"],
    "for-tuple": lambda n: [f"for i, {n} in a.pairs:", "    pass"],
    "with": lambda n: [f"with a.cm() as {n}:", "    pass"],
    "walrus": lambda n: [f"if ({n} := a.v1):", "    pass"],
    "tuple": lambda n: [f"{n}, other = a.pair"],
    "starred": lambda n: [f"first, *{n} = a.seq"],
    "nested-tuple": lambda n: [f"(first, ({n}, second)) = a.nest"],
    "chain": lambda n: [f"other = {n} = a.v1"],
    "nested-def": lambda n: [f"def {n}(t):", "    return t.v3"],
    "param": None,       # the name is a parameter of the host
    "except": lambda n: ["try:", "    a.run()", f"except ValueError as {n}:", "    pass"],
    "comp": lambda n: [f"b.acc = [{n}.v2 for {n} in a.xs]"],
}
SCOPED_BINDERS = ("except", "comp")        # Python unbinds the name itself; a later `del` would be a NameError

UNBINDERS = {
    "none": lambda n: [],
    "del": lambda n: [f"del {n}"],
    "del-tuple": lambda n: ["junk = 0", f"del ({n}, junk)"],
    "del-pair": lambda n: ["junk = 0", f"del junk, {n}"],
    "del-list": lambda n: [f"del [{n}]"],
    "del-in-if": lambda n: ["if a.flag:", f"    del {n}"],
    "del-in-loop": lambda n: ["for _i in a.rng:", f"    del {n}", "    break"],
    "del-in-try": lambda n: ["try:", "    a.run()", "finally:", f"    del {n}"],
    "del-twice": lambda n: [f"del {n}", f"{n} = b.again", f"del {n}"],
    "del-rebind": lambda n: [f"del {n}", f"{n} = b.again"],
    "del-attr": lambda n: [f"del {n}.attr"],
    "del-sub": lambda n: [f"del {n}[0]"],
}

HOSTS = ("def", "async", "init", "static", "nested", "lambda")


def ind(lines, k=1):
    return ["    " * k + l for l in lines]


def shadower(idx, host, binder, unbinder, name):
    """Source of the shadowing callable (a list of lines), or None for a combination that is not
    meaningful Python."""
    if binder in SCOPED_BINDERS and unbinder != "none":
        return None
    if host == "lambda":
        if unbinder != "none" or binder not in ("param", "walrus"):
            return None
        if binder == "param":
            return [f"sh{idx} = lambda a, {name}: {name}.v1"]
        return [f"sh{idx} = lambda a: ({name} := a.v1)"]
    params = ["a", "b"] + ([name] if binder == "param" else [])
    body = ([] if binder == "param" else BINDERS[binder](name)) + UNBINDERS[unbinder](name)
    body = body or ["pass"]
    ps = ", ".join(params)
    if host == "def":
        return [f"def sh{idx}({ps}):"] + ind(body)
    if host == "async":
        return [f"async def sh{idx}({ps}):"] + ind(body)
    if host == "init":
        return [f"class Sh{idx}:", f"    def __init__(self, {ps}):"] + ind(body, 2)
    if host == "static":
        return [f"class Sh{idx}:", "    @staticmethod", f"    def sm({ps}):"] + ind(body, 2)
    if host == "nested":
        return [f"def sh{idx}(a, b):", f"    def inner({ps}):"] + ind(body, 2) + ["    return a.v9"]
    raise ValueError(host)


# ------------------------------------------------------------------ the users


def users_for(name, rng, tag=""):
    """[(function name, source)] — the constructions / calls of `name` in every context."""
    kind, kw = KIND[name], next(k for n, _, k in NAMES if n == name)
    A = lambda: rng.choice(ARGS)            # noqa: E731
    P = lambda: rng.choice(ARGS[:6])        # noqa: E731  (no starred / literal: usable where one argument is meant)
    kwa = (lambda: f", {kw}={P()}") if kw else (lambda: "")
    u = f"u{tag}_{name}"
    out = []
    if kind.startswith(("class", "namedtuple")):
        out.append((f"{u}_asg", [f"def {u}_asg(a, b):", f"    x = {name}({A()}, {A()})", f"    a.attr = {name}({P()}{kwa()})",
                                 f"    y: int = {name}({P()})", f"    b.items[0] = {name}({A()})", "    return x.f, y.g"]))
        out.append((f"{u}_ret", [f"def {u}_ret(a, b):", "    if a.t:", f"        return {name}({A()}, {A()})", "    if b.t:",
                                 f"        return [{name}({P()}), ({name}({A()}, {A()}), 1)]",
                                 f"    return {{'k': {name}({P()}{kwa()})}}"]))
        out.append((f"{u}_dis", [f"def {u}_dis(a, b):", f"    {name}({A()}, {A()})", f"    print({name}({P()}), 1)",
                                 f"    [{name}({A()})]", f"    with {name}({P()}{kwa()}) as c:", "        c.run()"]))
        out.append((f"{u}_wal", [f"async def {u}_wal(a, b):", f"    if (n := {name}({P()}, {A()})):", "        return n.v",
                                 f"    return await b.co({name}({P()}))"]))
    else:
        out.append((f"{u}_call", [f"def {u}_call(a, b):", f"    x = {name}({A()}, {A()})", f"    {name}({P()}{kwa()})",
                                  f"    return {name}({A()})"]))
        out.append((f"{u}_acall", [f"async def {u}_acall(a, b):", f"    return [{name}({P()}), await b.co({name}({A()}, {A()}))]"]))
    # the same in a class initialiser and a static method (FileIr keys `K`, `K.make`)
    k = f"K{tag}_{name}"
    out.append((k, [f"class {k}:", "    def __init__(self, a, b):", f"        self.made = {name}({P()}, {A()})",
                    f"        {name}({P()}{kwa()})"]))
    out.append((f"{k}s.make", [f"class {k}s:", "    @staticmethod", "    def make(a, b):", f"        m = {name}({A()})",
                               f"        return {name}({P()}, {P()})"]))
    return [(n, "\n".join(l)) for n, l in out]


def find_fn(tree, fname):
    """the def a FileIr key names: a module-level function, `Class.static_method`, or a class's `__init__`."""
    cls, _, meth = fname.partition(".")
    for n in tree.body:
        if isinstance(n, (ast.FunctionDef, ast.AsyncFunctionDef)) and n.name == fname:
            return n
        if isinstance(n, ast.ClassDef) and n.name == cls:
            return next(m for m in n.body if isinstance(m, (ast.FunctionDef, ast.AsyncFunctionDef)) and m.name == (meth or "__init__"))
    raise KeyError(fname)


def pre_user(name, rng):
    return users_for(name, rng, tag="0")[:1]


def assemble(pre, shadowers, users):
    parts = [PREAMBLE] + [s for _, s in pre] + ["\n".join(s) for s in shadowers] + [s for _, s in users]
    return "\n\n".join(p.rstrip("\n") for p in parts) + "\n"


# ------------------------------------------------------------------ the call-site oracle (shared with the main stage)


def judge_function(res, fn, calls, classes, case, prefix=""):
    """The syntactic call-site oracle: for every call expression of `fn` in a visited position the
    recorded calls (`calls`: [{"name", "args", "kwargs": sorted [k, v] pairs}]) must contain
    (name, [instance?] + spelled positionals in source order, keywords by name).
    Appends to res.violations; returns the number of judged calls."""
    pm = spec.parent_map(fn)
    records = {}
    for r in calls:
        records.setdefault(r["name"], []).append((r["args"], r["kwargs"]))
    judged = 0
    for a in spec.accesses(fn, classes):
        if a.kind != "call" or a.tags:
            continue        # dropped / custom-analysed positions are C01's findings
        call = a.node
        callee = spec.wcb(spec.spell(call))
        self_name = None
        ctx_kind = "plain"
        if callee in classes:
            self_name = spec.expected_self(call, pm, callee)
            if self_name is None:
                res.count(prefix + "context:not-one-to-one-skipped")
                continue
            ctx_kind = "assigned" if not self_name.startswith("@") else ("returned" if self_name == "@ReturnValue" else "discarded")
        exp_args, exp_kwargs = spec.expected_record(call, self_name)
        judged += 1
        res.count(prefix + "context:" + ctx_kind)
        res.count(f"{prefix}nargs:{min(len(call.args), 4)}+kw{min(len(call.keywords), 2)}")
        got = records.get(callee, [])
        if (exp_args, exp_kwargs) in [(g[0], g[1]) for g in got]:
            continue
        if not got:
            sig = "call-record-missing"
        elif any(g[0][-len(call.args):] == exp_args[-len(call.args):] and g[1] == exp_kwargs for g in got if call.args) or \
                (not call.args and any(g[1] == exp_kwargs for g in got)):
            sig = f"instance-argument-wrong:{ctx_kind}"
        elif any(sorted(g[0]) == sorted(exp_args) for g in got):
            sig = "positional-arguments-out-of-order"
        else:
            sig = "arguments-misspelled-or-dropped"
        res.count(prefix + "verdict:" + sig)
        res.violations.append({"signature": sig, "case": case, "call": spec.spell(call), "line": call.lineno,
                               "expected": {"args": exp_args, "kwargs": exp_kwargs}, "recorded": got})
    return judged


# ------------------------------------------------------------------ in-process channel


class OCase:
    __slots__ = ("host", "binder", "unbinder", "name", "src", "base_src", "users", "fc", "label")


def plan(tier, rng, seed):
    """(host, binder, unbinder, name) combinations. quick: the full binder x unbinder product in a plain
    def (name rotating with index + seed), binder x name and unbinder x name products, every host with
    four binder/unbinder pairs x every name; thorough: the full product for def / async / init, the
    rest sampled."""
    names = [n for n, _, _ in NAMES]
    combos = []
    bs, us = list(BINDERS), list(UNBINDERS)
    if tier == "quick":
        i = 0
        for b in bs:
            for u in us:
                combos.append(("def", b, u, names[(i + seed) % len(names)]))
                i += 1
        for j, b in enumerate(bs):
            for k, n in enumerate(names):
                if (j + k + seed) % 2 == 0:
                    combos.append(("def", b, "del" if b not in SCOPED_BINDERS else "none", n))
        for j, u in enumerate(us):
            for k, n in enumerate(names):
                if (j + k + seed) % 2 == 1:
                    combos.append(("def", "assign", u, n))
        pairs = (("assign", "del"), ("for", "del-tuple"), ("param", "del"), ("with", "none"), ("walrus", "none"))
        for n in names:                      # a lambda can only bind through a parameter or a walrus
            combos.append(("lambda", "param", "none", n))
            combos.append(("lambda", "walrus", "none", n))
        for j, h in enumerate(HOSTS[1:-1]):
            for k, n in enumerate(names):
                combos.append((h,) + pairs[(j + k + seed) % len(pairs)] + (n,))
            for k, (b, u) in enumerate(pairs):
                combos.append((h, b, u, names[(j + 3 * k + seed) % len(names)]))
    else:
        for h in ("def", "async", "init"):
            for b in bs:
                for u in us:
                    for n in names:
                        combos.append((h, b, u, n))
        for n in names:
            combos.append(("lambda", "param", "none", n))
            combos.append(("lambda", "walrus", "none", n))
        for h in ("static", "nested"):
            for b in bs:
                for u in us:
                    combos.append((h, b, u, rng.choice(names)))
                    combos.append((h, b, u, rng.choice(names)))
    seen, out = set(), []
    for c in combos:
        if c not in seen:
            seen.add(c)
            out.append(c)
    return out


def fn_records(file_im, fname):
    for k in file_im["keys"]:
        if k["sym"]["name"] == fname and k["sym"]["kind"] in ("Func", "Class"):
            return k["ir"]["calls"]
    return None


def case_json(oc, channel, fname=None, extra=None):
    c = {"stage": "order", "channel": channel, "host": oc.host, "binder": oc.binder, "unbinder": oc.unbinder,
         "shadowed": oc.name, "shadowed_kind": KIND[oc.name], "module": oc.src, "module_without_the_shadowing_function": oc.base_src}
    if fname is not None:
        c["function"] = fname
    if extra:
        c.update(extra)
    return c


def dep_signature(oc, position):
    return (f"call-records-depend-on-other-functions:{position}:{oc.binder}+{oc.unbinder}:{KIND[oc.name]}"
            + ("" if oc.host == "def" else ":" + oc.host))


def run_inprocess(res, tier, rng, seed, model):
    from props import filelib

    project = filelib.make_project()
    cases = []
    base_cache = {}
    try:
        for idx, (host, binder, unbinder, name) in enumerate(plan(tier, rng, seed)):
            sh = shadower(idx, host, binder, unbinder, name)
            if sh is None:
                continue
            oc = OCase()
            oc.host, oc.binder, oc.unbinder, oc.name = host, binder, unbinder, name
            # three argument variants per name and seed: the file without the shadowing function is shared
            vrng = random.Random(f"{seed}/{name}/{idx % 3}")
            pre = pre_user(name, vrng)
            oc.users = pre + users_for(name, vrng)
            oc.src = assemble(pre, [sh], oc.users[1:])
            oc.base_src = assemble(pre, [], oc.users[1:])
            ast.parse(oc.src)
            oc.fc = filelib.run_case(project, "target.py", oc.src)
            if oc.base_src not in base_cache:
                base_cache[oc.base_src] = filelib.run_case(project, "target.py", oc.base_src)
            oc.label = base_cache[oc.base_src]
            cases.append(oc)
    finally:
        filelib.drop_project(project)
    live = [oc for oc in cases if oc.fc.skipped is None]
    outs = model.batch([("analyse_file", oc.fc.payload) for oc in live])
    mo_of = {id(oc): mo for oc, mo in zip(live, outs)}
    for oc in cases:
        res.evaluations += 1
        res.count("order:host:" + oc.host)
        res.count("order:binder:" + oc.binder)
        res.count("order:unbinder:" + oc.unbinder)
        res.count("order:shadowed:" + KIND[oc.name])
        fc, base = oc.fc, oc.label
        if fc.skipped is not None:
            res.skipped_outside_fragment += 1
            res.count("order:model-skipped:" + fc.skipped[:40])
        elif fc.file_im is not None:
            d = filelib.compare_file(fc.file_im, mo_of[id(oc)])
            if d is not None:
                res.disagreements.append({"case": case_json(oc, "file-analyser"), "diff": d[:2000]})
        if base.file_im is None or base.file_im["outcome"] != "ok":
            res.internal_errors.append(f"stage O: the file without the shadowing function is not analysed ok: {base.root_im} {base.file_im}")
            continue
        if fc.file_im is None or fc.file_im["outcome"] != "ok":
            res.count(f"order:file-not-ok:{oc.host}:{oc.binder}+{oc.unbinder}")
            continue
        res.count("order:file:ok")
        tree = fc.tree
        judged = 0
        for pos, (fname, _src) in enumerate(oc.users):
            position = "before" if pos == 0 else "after"
            recs = fn_records(fc.file_im, fname)
            brecs = fn_records(base.file_im, fname)
            case = case_json(oc, "file-analyser", fname)
            if recs is None or brecs is None:
                res.violations.append({"signature": "function-not-in-file-ir", "case": case})
                continue
            judged += judge_function(res, find_fn(tree, fname), recs, CLASSES, case, prefix="order:")
            if recs != brecs:
                res.count("order:verdict:depends-on-other-functions")
                res.violations.append({"signature": dep_signature(oc, position), "case": case,
                                       "recorded": recs, "recorded_without_the_shadowing_function": brecs})
        if judged:
            res.nontrivial.add(common.digest(["order", oc.src]))
    if cases:
        res.sample({"stage": "order", "module": cases[len(cases) // 2].src}, cap=8)
    return cases


# ------------------------------------------------------------------ file channels (CLI, followed import)


def doc_records(function_irs, fname):
    fir = function_irs.get(fname)
    if fir is None:
        return None
    recs = [{"name": c["name"], "args": list(c["args"]["args"]), "kwargs": sorted([k, v] for k, v in c["args"]["kwargs"].items())}
            for c in fir["calls"]]
    return sorted(recs, key=vl.impl_json_key)


def run_files(res, tier, rng, seed):
    """Composite files: several shadowing callables (random combinations) first, then the users of
    every name. `-o ir` on the file itself and on a target that imports from it."""
    from props.c09args import cli

    names = [n for n, _, _ in NAMES]
    groups = 3 if tier == "quick" else 12
    per = 10 if tier == "quick" else 16
    project = Path(tempfile.mkdtemp(prefix="rattr-c09order-"))
    try:
        (project / "solo.py").write_text("def solo_fn(s):\n    return s.solo\n")
        users = [u for n in names for u in users_for(n, rng)]
        pre = [u for n in names[:3] for u in pre_user(n, rng)]
        base_src = assemble(pre, [], users)
        imp_target = ("from omod import " + ", ".join(sorted({f.partition(".")[0] for f, _ in users})) + "\n\n\ndef t(a, b):\n    return "
                      + users[0][0] + "(a, b)\n")
        base_docs = {}
        for g in range(groups):
            shs, combos = [], []
            all_combos = [(h, b, u) for h in HOSTS for b in BINDERS for u in UNBINDERS]
            while len(shs) < per:
                h, b, u = rng.choice(all_combos)
                if g == 0 and len(shs) < len(names):
                    # group 0 holds, for every name, a plain bind + del in a def
                    h, b, u, n = "def", rng.choice(["assign", "for", "with", "tuple"]), rng.choice(["del", "del-tuple", "del-list"]), names[len(shs)]
                else:
                    n = rng.choice(names)
                s = shadower(len(shs), h, b, u, n)
                if s is None:
                    continue
                shs.append(s)
                combos.append([h, b, u, n])
            src = assemble(pre, shs, users)
            tree = ast.parse(src)
            for channel in ("cli", "import"):
                if channel == "cli":
                    files = {"target.py": src}
                    bfiles = {"target.py": base_src}
                else:
                    files = {"omod.py": src, "target.py": imp_target}
                    bfiles = {"omod.py": base_src, "target.py": imp_target}
                docs = []
                for fs, is_base in ((files, False), (bfiles, True)):
                    if is_base and channel in base_docs:
                        docs.append(base_docs[channel])
                        continue
                    for rel, text in fs.items():
                        (project / rel).write_text(text)
                    r = cli(project, "target.py", "ir")
                    if is_base:
                        base_docs[channel] = r
                    docs.append(r)
                r, rb = docs
                res.count(f"order:{channel}-ir:exit:{r['exit']}")
                case0 = {"stage": "order", "channel": channel + "-ir", "files": files, "shadowing": combos,
                         "files_without_the_shadowing_functions": bfiles}
                if rb["doc"] is None:
                    res.internal_errors.append(f"stage O ({channel}): the run without shadowing functions fails: {rb['stderr'][-400:]}")
                    continue
                if r["doc"] is None:
                    res.violations.append({"signature": f"order:{channel}-ir:run-fails-with-shadowing-functions", "case": case0,
                                           "detail": {"exit": r["exit"], "stderr": r["stderr"][-600:]}})
                    continue
                pick = (lambda d: d["target_ir"]["ir"]["function_irs"]) if channel == "cli" else \
                    (lambda d: d["import_irs"].get("omod", {}).get("function_irs", {}))
                firs, bfirs = pick(r["doc"]), pick(rb["doc"])
                for pos, (fname, _s) in enumerate(pre + users):
                    res.evaluations += 1
                    res.nontrivial.add(common.digest(["order", channel, g, fname, src]))
                    case = dict(case0, function=fname)
                    recs, brecs = doc_records(firs, fname), doc_records(bfirs, fname)
                    if recs is None or brecs is None:
                        res.violations.append({"signature": f"order:{channel}-ir:function-not-reported", "case": case})
                        continue
                    judge_function(res, find_fn(tree, fname), recs, CLASSES, case, prefix=f"order:{channel}:")
                    if recs != brecs:
                        position = "before" if pos < len(pre) else "after"
                        res.count(f"order:{channel}:verdict:depends-on-other-functions")
                        res.violations.append({"signature": f"call-records-depend-on-other-functions:{position}:{channel}-ir",
                                               "case": case, "recorded": recs, "recorded_without_the_shadowing_functions": brecs})
    finally:
        shutil.rmtree(project, ignore_errors=True)


def run_stage(res, tier, rng, seed, model):
    run_inprocess(res, tier, rng, seed, model)
    run_files(res, tier, rng, seed)


# ------------------------------------------------------------------ replay


def replay_case(case):
    """Re-run one recorded case through `python -m rattr -o ir` (with and without the shadowing
    function) and judge the named function again. Returns 1 when the deviation reproduces."""
    from props.c09args import cli

    if "files" in case:
        files, bfiles = case["files"], case["files_without_the_shadowing_functions"]
    else:
        files, bfiles = {"target.py": case["module"]}, {"target.py": case["module_without_the_shadowing_function"]}
    main = "omod.py" if "omod.py" in files else "target.py"
    project = Path(tempfile.mkdtemp(prefix="rattr-c09order-replay-"))
    try:
        (project / "solo.py").write_text("def solo_fn(s):\n    return s.solo\n")
        docs = []
        for fs in (files, bfiles):
            for rel, text in fs.items():
                (project / rel).write_text(text)
            docs.append(cli(project, "target.py", "ir"))
    finally:
        shutil.rmtree(project, ignore_errors=True)
    print(files[main])
    if docs[0]["doc"] is None or docs[1]["doc"] is None:
        print("run failed:", docs[0]["stderr"][-500:], docs[1]["stderr"][-500:])
        return 1
    pick = (lambda d: d["import_irs"]["omod"]["function_irs"]) if main == "omod.py" else (lambda d: d["target_ir"]["ir"]["function_irs"])
    tree = ast.parse(files[main])
    names = [case["function"]] if case.get("function") else sorted(n.name for n in tree.body if isinstance(n, (ast.FunctionDef, ast.AsyncFunctionDef)) and n.name.startswith("u"))
    res = common.Result("C09")
    bad = 0
    for fname in names:
        recs, brecs = doc_records(pick(docs[0]["doc"]), fname), doc_records(pick(docs[1]["doc"]), fname)
        n0 = len(res.violations)
        judge_function(res, find_fn(tree, fname), recs or [], CLASSES, {"function": fname})
        if recs != brecs or len(res.violations) > n0:
            bad += 1
            print(f"--- {fname}: DEVIATION")
            print("  recorded                               :", json.dumps(recs))
            print("  recorded without the shadowing function:", json.dumps(brecs))
            for v in res.violations[n0:]:
                print("  oracle:", v["signature"], "call", v["call"], "expected", json.dumps(v["expected"]))
        else:
            print(f"--- {fname}: ok")
    return 1 if bad else 0

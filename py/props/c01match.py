"""C01, `match` statements: every pattern kind x every wrapper x every position.

`FunctionAnalyser` has no visitor for any of the ten node classes of a `match` statement, so all of
them are walked by `generic_visit` (Lean: RattrModel/Match.lean, theorems `C01_match_*`,
`tieA_no_match_visitor`). What a pattern LOADS is little and easy to overlook: the dotted name of a
value pattern (`case cfg.START`), the class of a class pattern (`case cfg.Point(x=0)`), a dotted
mapping key (`case {cfg.KEY: v}`) — each of which can sit under any number of `as`, or-, sequence,
mapping, class and group patterns — plus the guard and the body, which use the captured names.

* `MatchGen` — RetGen + `match` statements drawn from the whole pattern grammar: value patterns with
  dotted names, literals (incl. `-1`, `1+2j`), singletons, captures, wildcards, sequence patterns
  (`[]`, `()`, open, with `*rest` / `*_`), mapping patterns (literal and dotted keys, `**rest`), class
  patterns (name / dotted class, positional and keyword sub-patterns), or-patterns (capture-free and
  same-binding alternatives), group patterns and `as` patterns wrapping each of them; guards and
  bodies that use the captures; nested in loops / with / try / other case bodies.
* `match_hook` — the TYPED encoding for the Lean driver (`{"k": "match", …}` → `Match.stmt`), so the
  model's answer goes through `Match.node` / the theorems about it; the generic `other` encoding of
  the same function must give the same answer (else: internal error).
* `pattern_loads` — an oracle for "what a pattern evaluates" that is independent of accessspec's walk
  (and of rattr): the access spec must demand each of them (else: internal error), and each must have
  the shape the grammar admits (dotted name / literal: the hypothesis of `C01_match_pattern_exact`).
* stages: per function (real FunctionAnalyser vs model, then the oracle), whole files in-process (real
  root context + FileAnalyser vs model `analyse_file`: functions, async functions, initialisers,
  static methods), two-file projects through `rattr.__main__.main` and the real CLI (`-o ir` for the
  target and the followed import, `-o results`).
"""
from __future__ import annotations

import ast
from collections import Counter

import common
from props import accessspec as spec
from props import c01x as cx
from props import visitlib as vl
from props.bodygen import PREAMBLE

# ------------------------------------------------------------------ generator


class MatchGen(cx.RetGen):
    """`p_match`: how often a statement (at block depth < 2) is a generated `match` statement."""

    LEAF = ["value"] * 4 + ["literal", "singleton", "capture", "capture", "wildcard", "cls0"]
    DEEP = ["value"] * 3 + ["literal", "singleton", "capture", "capture", "wildcard", "seq", "seq", "map", "map", "cls", "cls",
                            "cls", "or", "or", "as", "as", "as", "as", "group"]

    def __init__(self, rng, hostile=0.0, max_depth=3, p_stmt=0.15, p_expr=0.05, p_match=0.4, pat_depth=3):
        super().__init__(rng, hostile=hostile, max_depth=max_depth, p_stmt=p_stmt, p_expr=p_expr)
        self.p_match = p_match
        self.pat_depth = pat_depth

    # -- expressions a pattern may evaluate
    def dotted(self):
        r = self.r
        v = r.choice([self.var(), self.var(), "glob", "os", "collections", "Cls", "ospath"])
        if r.random() < 0.3:
            return f"{v}.{self.fresh('pa')}.{self.fresh('PV')}"
        return f"{v}.{self.fresh('PV')}"

    def literal(self):
        return self.r.choice(["0", "-1", "1.5", "'s'", "b'x'", "1+2j", "-1-2j", "'a' 'b'", "-0.5"])

    def class_expr(self):
        r = self.r
        if r.random() < 0.45:
            return r.choice(["Cls", "Bare", "NT", "WithStatic", "int", "str", "dict", "helper", "collections.OrderedDict",
                             f"ospath.{self.fresh('PK')}"])
        v = self.var()
        if r.random() < 0.3:
            return f"{v}.{self.fresh('pa')}.{self.fresh('PK')}"
        return f"{v}.{self.fresh('PK')}"

    # -- patterns
    def pattern(self, d, caps, capture_ok=True, refutable=False):
        """Source of one pattern. `caps`: list the bound names are appended to; `capture_ok=False`: an
        alternative of an or-pattern (binds nothing); `refutable`: must not be irrefutable."""
        r = self.r
        P = lambda **kw: self.pattern(d + 1, caps, capture_ok, **kw)  # noqa: E731
        k = r.choice(self.LEAF if d >= self.pat_depth else self.DEEP)
        if k in ("capture", "as") and not capture_ok:
            k = "wildcard" if k == "capture" else "group"
        if k in ("capture", "wildcard") and refutable:
            k = "value"
        if k == "value":
            return self.dotted()
        if k == "literal":
            return self.literal()
        if k == "singleton":
            return r.choice(["None", "True", "False"])
        if k == "capture":
            n = self.fresh("cap")
            caps.append(n)
            return n
        if k == "wildcard":
            return "_"
        if k == "cls0":
            return f"{self.class_expr()}()"
        if k == "seq":
            elts = [P() for _ in range(r.choice([0, 1, 2, 2, 3]))]
            if r.random() < 0.4:
                if capture_ok and r.random() < 0.6:
                    n = self.fresh("cap")
                    caps.append(n)
                    star = "*" + n
                else:
                    star = "*_"
                elts.insert(r.randint(0, len(elts)), star)
            if r.random() < 0.5:
                return "[" + ", ".join(elts) + "]"
            return "(" + ", ".join(elts) + ("," if len(elts) == 1 else "") + ")"
        if k == "map":
            items = []
            for _ in range(r.choice([0, 1, 1, 2])):
                key = r.choice([repr(self.fresh("k")), repr(self.fresh("k")), str(self.n + 1000), self.dotted(), self.dotted()])
                items.append(f"{key}: {P()}")
            if capture_ok and r.random() < 0.35:
                n = self.fresh("cap")
                caps.append(n)
                items.append("**" + n)
            return "{" + ", ".join(items) + "}"
        if k == "cls":
            args = [P() for _ in range(r.choice([0, 0, 1, 2]))]
            args += [f"{self.fresh('kwa')}={P()}" for _ in range(r.choice([0, 1, 1, 2]))]
            return f"{self.class_expr()}({', '.join(args)})"
        if k == "or":
            if capture_ok and r.random() < 0.3:
                # every alternative binds the same name
                n = self.fresh("cap")
                caps.append(n)
                alts = [f"({self.dotted()}, {n})", f"[{n}, {self.literal()}]", f"{self.class_expr()}({self.fresh('kwa')}={n})",
                        f"{{{self.dotted()}: {n}}}"]
                r.shuffle(alts)
                return "(" + " | ".join(alts[: r.choice([2, 3])]) + ")"
            alts = [self.pattern(d + 1, caps, False, refutable=True) for _ in range(r.choice([2, 2, 3]))]
            return "(" + " | ".join(alts) + ")"
        if k == "as":
            sub = P(refutable=True)
            n = self.fresh("cap")
            caps.append(n)
            return f"({sub} as {n})" if d > 0 or r.random() < 0.5 else f"{sub} as {n}"
        if k == "group":
            return f"({P(refutable=refutable)})"
        raise AssertionError(k)

    def match_stmt(self, d):
        r = self.r
        ind = lambda lines: ["    " + l for l in lines]  # noqa: E731
        subject = r.choice([self.expr(1), self.expr(2), self.atom(), f"{self.atom()}, {self.atom()}"])
        lines = [f"match {subject}:"]
        n_cases = r.choice([1, 2, 2, 3, 4])
        for _ in range(n_cases):
            caps = []
            if r.random() < 0.12:
                # an open sequence pattern (no brackets), top level only
                pat = ", ".join([self.pattern(1, caps, True)] + [self.pattern(1, caps, True) for _ in range(r.choice([1, 2]))])
            else:
                pat = self.pattern(0, caps, True, refutable=True)
            guard = ""
            if r.random() < 0.4:
                parts = [f"{c}.{self.fresh('g')}" for c in caps[: r.choice([0, 1, 2])]] + [self.expr(2)]
                r.shuffle(parts)
                guard = " if " + r.choice([" and ", " or "]).join(f"({p})" for p in parts)
            body = []
            for c in caps[:3]:
                body.append(r.choice([f"{c}.{self.fresh('a')}", f"{self.var()}.{self.fresh('s')} = {c}", f"return {c}.{self.fresh('a')}",
                                      f"print({c}.{self.fresh('a')})"]))
                if body[-1].startswith("return"):
                    break
            self.locals.extend(caps[:2])
            if not body or r.random() < 0.6:
                body = self.block(d + 1, 1) + body if r.random() < 0.5 and not (body and body[-1].startswith("return")) \
                    else body + ([] if body and body[-1].startswith("return") else self.block(d + 1, 1))
            lines += ind([f"case {pat}{guard}:"] + ind(body or ["pass"]))
        if r.random() < 0.5:
            last = r.choice(["_", self.fresh("cap")])
            lines += ind([f"case {last}:"] + ind(["pass"] if last == "_" else [f"{last}.{self.fresh('a')}"]))
        return lines

    def sibling_stmt(self, d):
        """the other statements that bind a name next to expressions they load, and have no visitor
        either: `except* E as name` (TryStar), `type Alias[T: bound] = value` (TypeAlias)."""
        r = self.r
        ind = lambda lines: ["    " + l for l in lines]  # noqa: E731
        if r.random() < 0.5:
            e = self.fresh("eg")
            return (["try:"] + ind([self.atom()]) + [f"except* {self.dotted()} as {e}:"] + ind([f"{e}.{self.fresh('a')}", self.atom()])
                    + [f"except* ({self.dotted()}, {self.dotted()}):"] + ind([f"{self.var()}.{self.fresh('s')} = {self.atom()}"]))
        t = self.fresh("TA")
        self.locals.append(t)
        if r.random() < 0.5:
            return [f"type {t} = {self.atom()}"]
        return [f"type {t}[{self.fresh('TV')}: {self.dotted()}] = {self.dotted()}"]

    def stmt(self, d=0):
        x = self.r.random()
        if d < 2 and x < self.p_match:
            return self.match_stmt(d)
        if d < 2 and x < self.p_match + 0.05:
            return self.sibling_stmt(d)
        return super().stmt(d)


def gen_match_module(rng, n_funcs=5, **kw):
    """bodygen.PREAMBLE + `n_funcs` functions from MatchGen. Returns (source, names)."""
    g = MatchGen(rng, **kw)
    names, parts = [], [PREAMBLE]
    for i in range(n_funcs):
        for _ in range(30):
            name = f"mf{i}"
            src = g.function(name)
            try:
                compile(src, "<gen>", "exec")
            except SyntaxError:
                continue
            parts.append(src)
            names.append(name)
            break
    return "\n".join(parts), names


MATCH_WITNESSES = '''
def m_plain(cmd, cfg):
    match cmd.kind:
        case cfg.START:
            return cmd.a
        case cfg.Point(x=0, y=py) if cfg.enabled:
            return py.r
        case [first, *rest]:
            return first.f, rest
        case {"k": v}:
            return v.z
        case other:
            return other.x
def m_as_value(cmd, cfg):
    match cmd.kind:
        case cfg.START as k:
            return k.n
def m_as_or(cmd, cfg):
    match cmd.kind:
        case (cfg.STOP | cfg.PAUSE) as k:
            return k
def m_as_class(cmd, cfg):
    match cmd.kind:
        case cfg.Point(x=0) as p:
            return p.q
def m_as_nested(cmd, cfg):
    match cmd:
        case ((cfg.deep.A as k1) as k2) as k3:
            return k1, k2, k3
        case [cfg.B as e0, *tail] as whole:
            return e0.x, tail, whole
        case {"key": cfg.C as v, cfg.KEY: (cfg.D | cfg.E) as w, **others} as m:
            return v, w, others, m
        case cfg.Outer(cfg.F as pos, kw=cfg.Inner(z=cfg.G) as inner) as outer:
            return pos, inner, outer
def m_star_and_guard(cmd, cfg):
    match cmd.items, cmd.more:
        case [cfg.HEAD, *rest] if rest and cfg.check(rest.n):
            return rest
        case (cfg.ONE, *_) | (cfg.TWO, *_):
            return cmd.two
        case [*init, cfg.LAST as last] if last.ok:
            return init
def m_literals(cmd, cfg):
    match cmd.v:
        case -1 | 1+2j | 'a' 'b' | None | True:
            return cfg.lit
        case {1: cfg.ONE, None: cfg.NONE, 's': [cfg.S0, (cfg.S1)]}:
            return cfg.mapped
        case str() | int(real=cfg.R) | collections.OrderedDict():
            return cfg.builtin_cls
def m_siblings(cmd, cfg):
    type Alias[T: cfg.Bound] = cfg.Target
    try:
        cmd.run()
    except* cfg.Err as eg:
        eg.exceptions
    except* (cfg.E2, cmd.E3):
        cmd.failed = cfg.why
    return Alias
async def m_async_nested(cmd, cfg):
    async for ev in cmd.events():
        match ev:
            case cfg.Evt(kind=cfg.K as kind):
                match kind.sub:
                    case cfg.SUB as s if await cfg.ok(s):
                        return s.val
            case _:
                with cfg.lock as lk:
                    match lk:
                        case cfg.Lock(owner=cfg.ME) as mine:
                            del mine.held
'''

# ------------------------------------------------------------------ typed encoding for the Lean driver


def enc_pat(p, E):
    sub = lambda ps: [enc_pat(x, E) for x in ps]  # noqa: E731
    if isinstance(p, ast.MatchValue):
        return {"p": "value", "e": E(p.value)}
    if isinstance(p, ast.MatchSingleton):
        return {"p": "singleton"}
    if isinstance(p, ast.MatchSequence):
        return {"p": "seq", "ps": sub(p.patterns)}
    if isinstance(p, ast.MatchMapping):
        return {"p": "map", "keys": [E(k) for k in p.keys], "ps": sub(p.patterns), "rest": p.rest}
    if isinstance(p, ast.MatchClass):
        return {"p": "cls", "c": E(p.cls), "ps": sub(p.patterns), "kwa": list(p.kwd_attrs), "kwps": sub(p.kwd_patterns)}
    if isinstance(p, ast.MatchStar):
        return {"p": "star", "name": p.name}
    if isinstance(p, ast.MatchAs):
        return {"p": "as", "pat": [enc_pat(p.pattern, E)] if p.pattern is not None else [], "name": p.name}
    if isinstance(p, ast.MatchOr):
        return {"p": "or", "ps": sub(p.patterns)}
    raise AssertionError(type(p).__name__)


def match_hook(n, E):
    """visitlib.enc hook: a `match` statement as the typed `Match.stmt` of RattrModel/Match.lean."""
    if isinstance(n, ast.Match):
        return {"k": "match", "subject": E(n.subject),
                "cases": [{"pat": enc_pat(c.pattern, E), "guard": [E(c.guard)] if c.guard is not None else [],
                           "body": [E(s) for s in c.body]} for c in n.cases]}
    return None


# ------------------------------------------------------------------ independent oracle: what the patterns of a body evaluate

PATTERN_PARENTS = (ast.MatchSequence, ast.MatchMapping, ast.MatchClass, ast.MatchAs, ast.MatchOr)


def walk_own(node):
    """every node of a body that belongs to THIS callable (nested def / lambda / class excluded)."""
    todo = list(node) if isinstance(node, list) else [node]
    while todo:
        n = todo.pop()
        if isinstance(n, spec.SCOPES):
            continue
        yield n
        todo.extend(ast.iter_child_nodes(n))


class PLoad:
    __slots__ = ("expr", "where", "above")

    def __init__(self, expr, where, above):
        self.expr, self.where, self.above = expr, where, tuple(above)


def pattern_loads(fn):
    """PLoad per expression a pattern of `fn`'s own `match` statements evaluates; `above` = the pattern
    classes it sits under, outermost first."""
    out = []

    def pat(p, above):
        t = type(p).__name__
        if isinstance(p, ast.MatchValue):
            out.append(PLoad(p.value, "MatchValue.value", above))
        elif isinstance(p, ast.MatchClass):
            out.append(PLoad(p.cls, "MatchClass.cls", above))
            for s in list(p.patterns) + list(p.kwd_patterns):
                pat(s, above + [t])
        elif isinstance(p, ast.MatchMapping):
            for k in p.keys:
                out.append(PLoad(k, "MatchMapping.keys", above))
            for s in p.patterns:
                pat(s, above + [t])
        elif isinstance(p, (ast.MatchSequence, ast.MatchOr)):
            for s in p.patterns:
                pat(s, above + [t])
        elif isinstance(p, ast.MatchAs):
            if p.pattern is not None:
                pat(p.pattern, above + [t])

    body = fn.body if not isinstance(fn, ast.Lambda) else [fn.body]
    for n in walk_own(list(body)):
        if isinstance(n, ast.Match):
            for c in n.cases:
                pat(c.pattern, [])
    return out


def dotted_name(e):
    """`a.b.c` for a Name / Attribute chain over a Name, else None."""
    parts = []
    while isinstance(e, ast.Attribute):
        parts.append(e.attr)
        e = e.value
    if isinstance(e, ast.Name):
        return ".".join([e.id] + parts[::-1])
    return None


def is_literal_expr(e):
    """what the grammar admits as a literal pattern / key: a constant, `-c`, `c ± c`."""
    if isinstance(e, ast.Constant):
        return True
    if isinstance(e, ast.UnaryOp) and isinstance(e.op, ast.USub):
        return is_literal_expr(e.operand)
    if isinstance(e, ast.BinOp) and isinstance(e.op, (ast.Add, ast.Sub)):
        return is_literal_expr(e.left) and is_literal_expr(e.right)
    return False


def check_pattern_loads(res, fn, accs, case):
    """The access spec must demand every dotted name a pattern evaluates (machinery self-check), each
    must have the grammar's shape; counts the reach (which load, under which wrappers)."""
    loads = pattern_loads(fn)
    demanded = {(a.kind, a.name) for a in accs}
    for pl in loads:
        under = "top" if not pl.above else "+".join(sorted({x[5:].lower() for x in pl.above}))
        res.count(f"match:load:{pl.where}:under:{under}")
        if "MatchAs" in pl.above:
            res.count("match:load-under-as:" + pl.where)
        name = dotted_name(pl.expr)
        if name is None:
            if not is_literal_expr(pl.expr):
                res.internal_errors.append({"what": "a pattern evaluates an expression that is neither a dotted name nor a "
                                            "literal (hypothesis of C01_match_pattern_exact)", "expr": ast.dump(pl.expr)[:300], "case": case})
            continue
        if ("get", name) not in demanded:
            res.internal_errors.append({"what": "the access spec does not demand a pattern load the independent oracle finds",
                                        "name": name, "where": pl.where, "above": list(pl.above), "case": case})
    return loads


def count_match_reach(res, fn):
    body = fn.body if not isinstance(fn, ast.Lambda) else [fn.body]
    for n in walk_own(list(body)):
        if type(n).__name__ in ("TryStar", "TypeAlias"):
            res.count("match:sibling:" + type(n).__name__)
        if isinstance(n, ast.pattern):
            res.count("match:pattern:" + type(n).__name__)
            if isinstance(n, ast.MatchAs) and n.pattern is not None:
                res.count("match:as-wrapping:" + type(n.pattern).__name__)
        elif isinstance(n, ast.match_case) and n.guard is not None:
            res.count("match:guard")


# ------------------------------------------------------------------ per-function stage


def judge_fn(res, fn, fn_src, im, stage):
    """The access oracle on one function's real IR (same verdict rule as c01.run)."""
    case = {"function": fn_src, "stage": stage}
    classes = spec.local_class_names(fn, vl.MODULE_CLASSES)
    accs = spec.accesses(fn, classes)
    check_pattern_loads(res, fn, accs, case)
    count_match_reach(res, fn)
    if len(accs) >= 3:
        res.nontrivial.add(common.digest([stage, fn_src]))
    have = {k: {n[0] for n in im[k + "s"]} for k in ("get", "set", "del")}
    have["call"] = {x["name"] for x in im["calls"]}
    for a in accs:
        res.count("position:" + (a.tags[0] if a.tags else "plain"))
        if a.name in have[a.kind]:
            continue
        mp = cx.match_position(a.path)
        sig = "missed-access:" + (a.tags[0] if a.tags else mp if mp is not None else "other:" + "/".join(a.path[-2:]))
        res.count("verdict:" + sig)
        res.violations.append({"signature": sig, "case": case, "missing": {"kind": a.kind, "name": a.name, "line": a.node.lineno,
                               "col": a.node.col_offset, "path": list(a.path), "tags": list(a.tags)},
                               "reported": {k: sorted(v)[:40] for k, v in have.items()}})


def run_function_stage(res, rng, n_modules, model, stage="match-fn"):
    """Real FunctionAnalyser vs the Lean model on every function, the model being asked TWICE: with the
    typed `match` encoding (`Match.stmt`) and with the generic `other` encoding; then the oracle."""
    wit = [l.split("(")[0].split()[-1] for l in MATCH_WITNESSES.splitlines() if l.startswith(("def ", "async def "))]
    sources = [(PREAMBLE + MATCH_WITNESSES, wit)] + [gen_match_module(rng) for _ in range(n_modules)]
    cases, reqs = [], []
    for src, names in sources:
        for name in names:
            tree, ctx = vl.prepare(src)
            fn = next(n for n in tree.body if isinstance(n, (ast.FunctionDef, ast.AsyncFunctionDef)) and n.name == name)
            reqs.append(vl.model_request(fn, ctx, match_hook))
            reqs.append(vl.model_request(fn, ctx))
            im, _events = vl.analyse_function(fn, ctx)
            cases.append((fn, ast.unparse(fn), im))
    outs = model.batch(reqs)
    for i, (fn, fn_src, im) in enumerate(cases):
        typed, generic = outs[2 * i], outs[2 * i + 1]
        res.evaluations += 1
        res.count(f"{stage}:outcome:" + im["outcome"] + (":" + im["exc"] if im["outcome"] != "ok" else ""))
        if "__error__" in typed or "__error__" in generic:
            res.internal_errors.append({"what": "model error on a match function", "typed": str(typed.get("__error__"))[:300],
                                        "generic": str(generic.get("__error__"))[:300], "function": fn_src})
            continue
        if vl.canon_model_out(typed) != vl.canon_model_out(generic):
            res.internal_errors.append({"what": "Match.stmt (typed encoding) and the generic `other` encoding give different model answers",
                                        "function": fn_src})
        diff = vl.compare(im, typed)
        if diff is not None:
            res.disagreements.append({"case": {"function": fn_src, "stage": stage}, "diff": diff[:2000]})
        if im["outcome"] == "ok":
            judge_fn(res, fn, fn_src, im, stage)
        res.sample({"function": fn_src[:600], "stage": stage}, cap=5)
    return cases


# ------------------------------------------------------------------ whole files / projects


class MatchUnitGen(cx.UnitGen):
    """UnitGen whose bodies (functions, initialisers, static methods, ordinary methods) come from MatchGen."""

    def __init__(self, rng, prefix=""):
        super().__init__(rng, prefix=prefix)
        self.g = MatchGen(rng, hostile=0.0, max_depth=2, p_stmt=0.15, p_expr=0.05, p_match=0.45, pat_depth=2)


MATCH_UNIT_CURATED = [
    # the reviewer's demo, as a function, an initialiser and a static method
    "class Router:\n    def __init__(self, cmd, cfg):\n        match cmd.kind:\n            case cfg.START as k:\n                self.k = k.n\n"
    "            case (cfg.STOP | cfg.PAUSE) as k:\n                self.k = k\n            case cfg.Point(x=0) as p:\n                self.p = p.q\n"
    "    @staticmethod\n    def route(cmd, cfg):\n        match cmd.kind:\n            case [cfg.HEAD as h, *rest] if cfg.on(h):\n                return rest\n"
    "            case {cfg.KEY: cfg.Val(v=cfg.V) as val, **others}:\n                return val, others\n"
    "def route(cmd, cfg):\n    match cmd.kind:\n        case cfg.START as k:\n            return k.n\n        case (cfg.STOP | cfg.PAUSE) as k:\n"
    "            return k\n        case cfg.Point(x=0) as p:\n            return p.q\n",
]


def file_fn_nodes(tree):
    """every def of a module (any depth), for the reach counters."""
    return [n for n in ast.walk(tree) if isinstance(n, (ast.FunctionDef, ast.AsyncFunctionDef))]


def run_file_stages(res, rng, n_unit, n_inproc, n_cli, model):
    cases = cx.run_unit_stage(res, rng, n_unit, model, stage="match-unit", unit_gen=MatchUnitGen, curated=MATCH_UNIT_CURATED)
    for c in cases:
        if getattr(c, "tree", None) is not None:
            for fn in file_fn_nodes(c.tree):
                count_match_reach(res, fn)
                check_pattern_loads(res, fn, spec.accesses(fn, ()), {"stage": "match-unit", "module": c.src[:2000]})
    cx.run_project_stage(res, rng, n_inproc, n_cli, unit_gen=MatchUnitGen, stages=("match-project", "match-cli"))


def reach_summary(dist):
    """pattern kinds / wrappers the run did NOT reach (must be empty: inspected by c01.run)."""
    want = ["match:pattern:" + k for k in ("MatchValue", "MatchSingleton", "MatchSequence", "MatchMapping", "MatchClass", "MatchStar",
                                           "MatchAs", "MatchOr")]
    want += ["match:as-wrapping:" + k for k in ("MatchValue", "MatchSequence", "MatchMapping", "MatchClass", "MatchOr", "MatchAs")]
    want += ["match:load-under-as:" + k for k in ("MatchValue.value", "MatchClass.cls", "MatchMapping.keys")]
    want += ["match:guard", "match:sibling:TryStar", "match:sibling:TypeAlias"]
    return [w for w in want if not dist.get(w)]

"""C03 end to end on PROJECTS: target file + followed local modules, through the real `main()` in-process
and the real CLI, judged by a closure oracle that is computed FROM THE SOURCE TEXT alone.

Why this stage exists.  The IR-level stage of `c03.py` takes call records and callee resolution from
the real analyser / resolver; a defect *there* (a mis-spelled call record: the instance a class
initialiser is bound to; a callee resolved to a same-named function of another file) is invisible to
it.  Here the oracle reads the sources of every file of the project:

  * module table  : `a.py` -> `a`, `pk/__init__.py` -> `pk`, `pk/m.py` -> `pk.m`;
  * callables     : `def` / `async def`, `class K` with `__init__` (called as `K(...)`), static methods
                    (`K.sm(...)`), module-level named lambdas;
  * resolution    : PYTHON's rule — a name called in module M is M's own module-level binding: a
                    callable defined in M, `from X import f`, or `A.f` with `import X as A` /
                    `import X` / `from P import X`.  Two modules that each define `_helper` have two
                    different `_helper`s, each resolved within its own module;
  * call sites    : the argument expressions as spelled (README spelling `x`, `E.a`, `E[]`); for
                    `T = K(args)` (also `T: ann = K(args)`, `T += K(args)`, `(x := K(args))`) the
                    initialiser's first parameter is bound to the spelling of T;
  * binding       : CPython's own call machinery (`c04.python_bind`);
  * own accesses  : a walker over the small statement language the generator emits (it refuses anything
                    else: `OutsideGrammar`), maximal Name/Attribute/Subscript chains by context;
  * closure       : own accesses + for every resolved site the callee's closure with the ROOT VARIABLE
                    of each name rewritten by the binding (unbound parameters stay).

Fragments (whole project, by construction; asserted syntactically by `project_features`):
  * `tree`   : the call graph is a forest over ALL files (each callable has at most one call site),
               every argument is a bare name, arbitrary depth across files, distinct call records;
  * `depth1` : every callee is a leaf; arguments of every shape (attribute chains, subscripts,
               keywords, omitted defaults), instances stored in attributes / items.
  * `cycle`  : (round 3) the forest of `tree` plus recursion of every kind of callable — a function / lambda /
               static method / initialiser calling itself, two callables of one file calling each other, longer
               cycles — with bare NON-IDENTITY arguments; the only feature of the call graph is the cycle.  Demanded:
               one unrolling of every cycle in the callable and in every caller (`Project.unroll`) <= results <=
               everything derivable (`Project.closure`, a least fixpoint); `C03_tree_node_contributes`,
               `C03_direct_recursion_unrolled_once` are the theorems behind the lower bound.
In all three the pinned code is proved right (C03_tree_*, C03_depthOne_* over the combined program), so any
deviation is a VIOLATION.  In every mode (round 3): signatures over all five parameter kinds, keywords spelled like
positional-only / *args / **kwargs parameters of a callee with **kwargs, call statements in every position a call can
sit in (`PLACEMENTS`) and under every compound statement (`NESTINGS`).  The `wild` mode mixes everything; a deviation there is attributed to a known
finding only by its syntactic feature AND only if the Lean project model predicts the same document.
"""
from __future__ import annotations

import ast
import contextlib
import io
import json
import os
import re
import shutil
import subprocess
import sys
import tempfile
from pathlib import Path
from unittest import mock

sys.path.insert(0, str(Path(__file__).resolve().parent.parent))

import common  # noqa: E402
import impl  # noqa: E402
from props import resultslib as rl  # noqa: E402

KINDS = ("gets", "sets", "dels")


class OutsideGrammar(Exception):
    pass


# ====================================================================== the source-level oracle


def module_table(files):
    """module name -> relative path, for the files of a project rooted at sys.path[0]."""
    out = {}
    for rel in files:
        p = Path(rel)
        if p.suffix != ".py":
            continue
        parts = list(p.with_suffix("").parts)
        if parts[-1] == "__init__":
            parts = parts[:-1]
        if parts:
            out[".".join(parts)] = rel
    return out


def spell(n):
    """README spelling of a nameable chain (constant subscripts only)."""
    if isinstance(n, ast.Name):
        return n.id
    if isinstance(n, ast.Attribute):
        return f"{spell(n.value)}.{n.attr}"
    if isinstance(n, ast.Subscript):
        if not isinstance(n.slice, ast.Constant):
            raise OutsideGrammar("non-constant subscript")
        return f"{spell(n.value)}[]"
    raise OutsideGrammar("not a name chain: " + type(n).__name__)


def spell_any(n):
    """README spelling of a nameable chain whatever its subscript indices are (`a.b[f(x)].c` -> `a.b[].c`)."""
    if isinstance(n, ast.Name):
        return n.id
    if isinstance(n, ast.Attribute):
        return f"{spell_any(n.value)}.{n.attr}"
    if isinstance(n, ast.Subscript):
        return f"{spell_any(n.value)}[]"
    raise OutsideGrammar("not a name chain: " + type(n).__name__)


def is_chain(n):
    while isinstance(n, (ast.Attribute, ast.Subscript)):
        n = n.value
    return isinstance(n, ast.Name)


def sig_of(args: ast.arguments):
    npos = len(args.posonlyargs) + len(args.args)
    ndef = len(args.defaults)
    dpos = [i >= npos - ndef for i in range(npos)]
    return {
        "posonly": [{"name": x.arg, "default": dpos[i]} for i, x in enumerate(args.posonlyargs)],
        "args": [{"name": x.arg, "default": dpos[len(args.posonlyargs) + i]} for i, x in enumerate(args.args)],
        "vararg": args.vararg.arg if args.vararg else None,
        "kwonly": [{"name": x.arg, "default": d is not None} for x, d in zip(args.kwonlyargs, args.kw_defaults)],
        "kwarg": args.kwarg.arg if args.kwarg else None,
    }


def sig_params(sig):
    return [p["name"] for k in ("posonly", "args", "kwonly") for p in sig[k]] + [x for x in (sig["vararg"], sig["kwarg"]) if x]


class Site:
    __slots__ = ("callee", "args", "kwargs", "self_", "unit", "stored", "lineno", "in_index", "forward")

    def __init__(self, callee, args, kwargs, lineno):
        self.callee, self.args, self.kwargs, self.lineno = callee, args, kwargs, lineno
        self.self_ = None       # spelling of the expression the new instance is stored in
        self.stored = True      # False: a class instance that is not stored (no expression for `self`)
        self.unit = None        # the callable Python calls here (None: not one of the project's callables)
        self.in_index = False   # the call sits inside a subscript index (`del p.d[f(x)]`, `q.t[f(x)]`)
        self.forward = False    # a static method that is registered only after this caller is analysed

    def record(self):
        return (self.callee, tuple(([self.self_] if self.self_ is not None else []) + self.args), tuple(map(tuple, self.kwargs)))


class Unit:
    """One callable of the project."""

    def __init__(self, mod, key, kind, sig, body, is_expr=False, lineno=0, when=(0, 0)):
        self.mod, self.key, self.kind, self.sig, self.lineno = mod, key, kind, sig, lineno
        # `when`: the moment the file walk analyses this body = (index of the module-level statement, 0 for a
        # function / lambda / initialiser, 1 + j for the j-th static method of its class)
        self.when = when
        self.has_index = False      # some access / call of the body sits inside a non-constant subscript index
        self.captures = set()       # names bound by match patterns (strings in the AST)
        self.body, self.is_expr = body, is_expr
        self.own = {k: set() for k in KINDS}
        self.sites = []

    @property
    def uid(self):
        return f"{self.mod}:{self.key}"


class Module:
    def __init__(self, name, rel, src):
        self.name, self.rel, self.src = name, rel, src
        self.tree = ast.parse(src)
        self.bind = {}      # module-level name -> ("unit", Unit) | ("class", name) | ("from", module, name) | ("module", module)
        self.units = {}     # spelled local callee ("f", "K", "K.sm") -> Unit
        self.import_roots = set()


class Project:
    """Everything the oracle knows, computed from the files alone."""

    def __init__(self, files, target_rel):
        self.files, self.target_rel = files, target_rel
        self.forward_static = 0     # calls to a static method that is registered only after the caller's body is analysed
        self._in_index = 0
        self.table = module_table(files)
        self.mods = {}
        for name, rel in self.table.items():
            self.mods[name] = Module(name, rel, files[rel])
        tname = [n for n, r in self.table.items() if r == target_rel]
        if not tname:
            raise OutsideGrammar("target is not a module of the project")
        self.target = self.mods[tname[0]]
        for m in self.mods.values():
            self._bindings(m)
        for m in self.mods.values():
            for u in m.units.values():
                self._walk_unit(m, u)

    # ---------------------------------------------------------------- module level
    def _bindings(self, m):
        def put(name, what):
            if name in m.bind:
                raise OutsideGrammar(f"module-level name bound twice: {name}")
            m.bind[name] = what

        for si, st in enumerate(m.tree.body):
            if isinstance(st, (ast.FunctionDef, ast.AsyncFunctionDef)):
                if st.decorator_list:
                    raise OutsideGrammar("decorated def")
                u = Unit(m.name, st.name, "async" if isinstance(st, ast.AsyncFunctionDef) else "def", sig_of(st.args), st.body, lineno=st.lineno,
                         when=(si, 0))
                m.units[st.name] = u
                put(st.name, ("unit", u))
            elif isinstance(st, ast.ClassDef):
                if st.bases or st.decorator_list or st.keywords:
                    raise OutsideGrammar("class with bases / decorators")
                put(st.name, ("class", st.name, st.lineno))
                n_static = 0
                for c in st.body:
                    if isinstance(c, ast.FunctionDef) and c.name == "__init__" and not c.decorator_list:
                        if f"{st.name}" in m.units:
                            raise OutsideGrammar("two __init__")
                        m.units[st.name] = Unit(m.name, st.name, "init", sig_of(c.args), c.body, lineno=st.lineno, when=(si, 0))
                    elif isinstance(c, ast.FunctionDef) and [spell(d) for d in c.decorator_list if is_chain(d)] == ["staticmethod"]:
                        k = f"{st.name}.{c.name}"
                        if k in m.units:
                            raise OutsideGrammar("static method defined twice")
                        n_static += 1
                        m.units[k] = Unit(m.name, k, "static", sig_of(c.args), c.body, lineno=st.lineno, when=(si, n_static))
                    elif isinstance(c, ast.Assign) and len(c.targets) == 1 and isinstance(c.targets[0], ast.Name) and isinstance(c.value, ast.Constant):
                        pass
                    elif isinstance(c, ast.Pass):
                        pass
                    else:
                        raise OutsideGrammar("class body statement " + type(c).__name__)
            elif isinstance(st, ast.Assign) and len(st.targets) == 1 and isinstance(st.targets[0], ast.Name) and isinstance(st.value, ast.Lambda):
                name = st.targets[0].id
                u = Unit(m.name, name, "lambda", sig_of(st.value.args), st.value.body, is_expr=True, lineno=st.lineno, when=(si, 0))
                m.units[name] = u
                put(name, ("unit", u))
            elif isinstance(st, ast.ImportFrom):
                if st.level != 0 or st.module is None:
                    raise OutsideGrammar("relative import")
                for a in st.names:
                    if a.asname is not None or a.name == "*":
                        raise OutsideGrammar("aliased / starred from-import (rattr does not resolve the alias: C06's subject)")
                    full = f"{st.module}.{a.name}"
                    if full in self.table:
                        put(a.name, ("module", full))
                        m.import_roots.add(a.name)
                    else:
                        put(a.name, ("from", st.module, a.name))
            elif isinstance(st, ast.Import):
                for a in st.names:
                    if a.asname is None and "." in a.name:
                        raise OutsideGrammar("`import p.m` without alias (rattr does not resolve p.m.f(): C06's subject)")
                    nm = a.asname or a.name
                    put(nm, ("module", a.name))
                    m.import_roots.add(nm)
            elif isinstance(st, ast.Expr) and isinstance(st.value, ast.Constant):
                pass
            else:
                raise OutsideGrammar("module-level statement " + type(st).__name__)

    def lookup(self, modname, name, depth=0):
        """The callable `name` denotes at module level of `modname` (through re-export chains)."""
        m = self.mods.get(modname)
        if m is None or depth > 8:
            return None
        b = m.bind.get(name)
        if b is None:
            return None
        if b[0] == "unit":
            return b[1]
        if b[0] == "class":
            return m.units.get(name)          # None: a class without initialiser
        if b[0] == "from":
            return self.lookup(b[1], b[2], depth + 1)
        return None

    def resolve_callee(self, m, u, func, probe=False):
        """(spelled callee, Unit | None, via_import: bool)"""
        if not is_chain(func):
            raise OutsideGrammar("callee is not a name chain")
        sp = spell(func)
        parts = sp.split(".")
        if any("[" in p for p in parts):
            raise OutsideGrammar("subscripted callee")
        locals_ = set(sig_params(u.sig))
        if parts[0] in locals_:
            return sp, None, False                      # a call on a parameter: not a project callable
        b = m.bind.get(parts[0])
        if b is None:
            return sp, None, False                      # builtin / undefined
        if len(parts) == 1:
            return sp, self.lookup(m.name, parts[0]), b[0] == "from"
        if b[0] == "class" and len(parts) == 2:
            t = m.units.get(sp)
            if t is not None and t.kind == "static" and t.when > u.when:
                # [interp] "... it transitively calls AND RATTR CAN RESOLVE": the file walk registers `K.sm` at the
                # moment it analyses that method (class by class, the initialiser first, then the static methods
                # in order), so a body analysed EARLIER does not see it ("target is a method": the known C08 row
                # `not-inlined-though-python-resolves-it:dotted:static-method:callers-first`).  A static method is
                # resolvable from its OWN body (t.when == u.when) and from everything analysed later.
                if not probe:
                    self.forward_static += 1
                return sp, None, False
            return sp, t, False
        if b[0] == "module":
            mod = self.mods.get(b[1])
            if mod is None:
                return sp, None, True
            rest = parts[1:]
            if len(rest) == 1:
                return sp, self.lookup(mod.name, rest[0]), True
            if len(rest) == 2 and mod.bind.get(rest[0], ("",))[0] == "class":
                return sp, mod.units.get(".".join(rest)), True
            return sp, None, True
        if b[0] == "from" and len(parts) == 2:
            raise OutsideGrammar("static method through an imported class (not followed by rattr: C06's subject)")
        return sp, None, False

    # ---------------------------------------------------------------- bodies
    def _walk_unit(self, m, u):
        """Own accesses and call sites of one callable: a walker over the statement / expression language
        the generator emits (every position a CALL can sit in: conditions, loop headers, with items,
        comprehension iterables / conditions / elements, return / yield / yield from / await operands,
        parameter-less lambda bodies, f-strings, assert, raise, match subjects / guards / value patterns,
        operands of every operator, displays, arguments of other calls, subscript indices). Anything else:
        `OutsideGrammar`.  Accesses: maximal Name / Attribute / Subscript chains by expression context; a
        name bound by `for` / `with ... as` / a comprehension / `:=` is a set of that bare name; names bound
        by `except ... as e` and by match captures are strings in the AST, not Name nodes (nothing)."""

        def site_of(call, self_=None, stored=True):
            sp, unit, _ = self.resolve_callee(m, u, call.func)
            for a in call.args:
                if isinstance(a, ast.Starred):
                    raise OutsideGrammar("starred argument")
            if any(k.arg is None for k in call.keywords):
                raise OutsideGrammar("** argument")
            s = Site(sp, [arg_spell(a) for a in call.args], [[k.arg, arg_spell(k.value)] for k in call.keywords], call.lineno)
            s.unit = unit
            s.in_index = self._in_index > 0
            if unit is not None and (None in s.args or any(v is None for _, v in s.kwargs)):
                raise OutsideGrammar("a call result as the argument of a project callable")
            if unit is not None and unit.kind == "init":
                s.self_, s.stored = self_, stored and self_ is not None
            u.sites.append(s)
            for a in list(call.args) + [k.value for k in call.keywords]:
                expr(a)
            return s

        def arg_spell(a):
            if is_chain(a):
                return spell(a)
            if isinstance(a, ast.Constant):
                return "@Constant"
            if isinstance(a, (ast.Call, ast.NamedExpr, ast.Tuple, ast.JoinedStr, ast.BinOp, ast.BoolOp, ast.Compare, ast.IfExp, ast.UnaryOp)):
                return None                 # fine as the argument of a builtin (`print(f(x))`), nowhere else
            raise OutsideGrammar("argument shape " + type(a).__name__)

        def is_class_call(e):
            if not isinstance(e, ast.Call) or not is_chain(e.func):
                return False
            _, unit, _ = self.resolve_callee(m, u, e.func, probe=True)
            return unit is not None and unit.kind == "init"

        def refuse_class_in_display(value):
            # `t = (K(a), b)` / `x = [K(a)]` / `(w := (K(a), b))` with K a class of THIS file: rattr ends with its own
            # fatal "class assignment must be one-to-one" (class_in_rhs looks into a Tuple / List display)
            if isinstance(value, (ast.Tuple, ast.List)):
                for x in value.elts:
                    if isinstance(x, ast.Call) and isinstance(x.func, ast.Name) and m.bind.get(x.func.id, ("",))[0] == "class" \
                            and x.func.id not in set(sig_params(u.sig)):
                        raise OutsideGrammar("class instance inside a display on the right-hand side of an assignment")

        def chain(e, kind):
            """a maximal name chain in context `kind`; non-constant subscript indices hang below it"""
            n = e
            idx = []
            while isinstance(n, (ast.Attribute, ast.Subscript)):
                if isinstance(n, ast.Subscript) and not isinstance(n.slice, ast.Constant):
                    idx.append(n.slice)
                n = n.value
            u.own[kind].add(spell_any(e))
            for sl in idx:
                u.has_index = True
                self._in_index += 1
                try:
                    expr(sl)
                finally:
                    self._in_index -= 1

        def target(t):
            if isinstance(t, (ast.Tuple, ast.List)):
                for x in t.elts:
                    target(x)
            elif is_chain(t):
                chain(t, "sets")
            else:
                raise OutsideGrammar("binding target " + type(t).__name__)

        def comprehension(gens, elts):
            for g in gens:
                if g.is_async:
                    raise OutsideGrammar("async comprehension")
                target(g.target)
                expr(g.iter)
                for c in g.ifs:
                    expr(c)
            for x in elts:
                expr(x)

        def pattern(p):
            if isinstance(p, ast.MatchValue):
                expr(p.value)
            elif isinstance(p, ast.MatchSingleton):
                pass
            elif isinstance(p, ast.MatchSequence):
                for x in p.patterns:
                    pattern(x)
            elif isinstance(p, ast.MatchMapping):
                for k in p.keys:
                    expr(k)
                for x in p.patterns:
                    pattern(x)
                if p.rest:
                    u.captures.add(p.rest)
            elif isinstance(p, ast.MatchClass):
                expr(p.cls)
                for x in list(p.patterns) + list(p.kwd_patterns):
                    pattern(x)
            elif isinstance(p, ast.MatchStar):
                if p.name:
                    u.captures.add(p.name)
            elif isinstance(p, ast.MatchAs):
                if p.pattern is not None:
                    pattern(p.pattern)
                if p.name:
                    u.captures.add(p.name)
            elif isinstance(p, ast.MatchOr):
                for x in p.patterns:
                    pattern(x)
            else:
                raise OutsideGrammar("pattern " + type(p).__name__)

        def expr(e):
            if isinstance(e, ast.Constant):
                return
            if isinstance(e, (ast.Tuple, ast.List, ast.Set)):
                for x in e.elts:
                    expr(x)
                return
            if isinstance(e, ast.Dict):
                for k in e.keys:
                    if k is None:
                        raise OutsideGrammar("** in a dict display")
                for x in list(e.keys) + list(e.values):
                    expr(x)
                return
            if isinstance(e, ast.Call):
                site_of(e, None, stored=False)
                return
            if isinstance(e, ast.NamedExpr) and isinstance(e.target, ast.Name):
                refuse_class_in_display(e.value)
                u.own["sets"].add(e.target.id)
                if is_class_call(e.value):
                    site_of(e.value, e.target.id)
                else:
                    expr(e.value)
                return
            if is_chain(e):
                chain(e, "gets")
                return
            if isinstance(e, ast.BoolOp):
                for x in e.values:
                    expr(x)
                return
            if isinstance(e, ast.BinOp):
                expr(e.left), expr(e.right)
                return
            if isinstance(e, ast.UnaryOp):
                expr(e.operand)
                return
            if isinstance(e, ast.Compare):
                expr(e.left)
                for x in e.comparators:
                    expr(x)
                return
            if isinstance(e, ast.IfExp):
                expr(e.test), expr(e.body), expr(e.orelse)
                return
            if isinstance(e, ast.JoinedStr):
                for x in e.values:
                    expr(x)
                return
            if isinstance(e, ast.FormattedValue):
                expr(e.value)
                if e.format_spec is not None:
                    expr(e.format_spec)
                return
            if isinstance(e, (ast.Await, ast.YieldFrom)):
                expr(e.value)
                return
            if isinstance(e, ast.Yield):
                if e.value is not None:
                    expr(e.value)
                return
            if isinstance(e, ast.Lambda):
                a = e.args
                if a.posonlyargs or a.args or a.vararg or a.kwonlyargs or a.kwarg:
                    raise OutsideGrammar("lambda with parameters inside a body")
                expr(e.body)
                return
            if isinstance(e, (ast.ListComp, ast.SetComp, ast.GeneratorExp)):
                comprehension(e.generators, [e.elt])
                return
            if isinstance(e, ast.DictComp):
                comprehension(e.generators, [e.key, e.value])
                return
            raise OutsideGrammar("expression " + type(e).__name__)

        def block(ss):
            for s in ss:
                stmt(s)

        def stmt(s):
            if isinstance(s, ast.Expr):
                expr(s.value)
            elif isinstance(s, ast.Return):
                if s.value is not None:
                    if is_class_call(s.value):
                        site_of(s.value, None, stored=False)
                    else:
                        expr(s.value)
            elif isinstance(s, (ast.Pass, ast.Break, ast.Continue)):
                pass
            elif isinstance(s, ast.Assign):
                if len(s.targets) != 1:
                    raise OutsideGrammar("assignment target")
                t0 = s.targets[0]
                refuse_class_in_display(s.value)
                if not is_chain(t0) and is_class_call(s.value):
                    raise OutsideGrammar("class instance unpacked into several targets (rattr: its own fatal)")
                if is_chain(t0) and is_class_call(s.value):
                    chain(t0, "sets")
                    site_of(s.value, spell_any(t0))
                else:
                    target(t0)
                    expr(s.value)
            elif isinstance(s, (ast.AnnAssign, ast.AugAssign)):
                if not is_chain(s.target) or s.value is None or not is_class_call(s.value):
                    raise OutsideGrammar("annotated / augmented assignment of something that is not a new instance")
                chain(s.target, "sets")
                site_of(s.value, spell_any(s.target))
            elif isinstance(s, ast.Delete):
                for t in s.targets:
                    if not is_chain(t) or isinstance(t, ast.Name):
                        raise OutsideGrammar("del target")
                    chain(t, "dels")
            elif isinstance(s, (ast.If, ast.While)):
                expr(s.test)
                block(s.body), block(s.orelse)
            elif isinstance(s, (ast.For, ast.AsyncFor)):
                target(s.target)
                expr(s.iter)
                block(s.body), block(s.orelse)
            elif isinstance(s, (ast.With, ast.AsyncWith)):
                for it in s.items:
                    expr(it.context_expr)
                    if it.optional_vars is not None:
                        target(it.optional_vars)
                block(s.body)
            elif isinstance(s, ast.Try):
                block(s.body)
                for h in s.handlers:
                    if h.type is not None:
                        expr(h.type)
                    block(h.body)
                block(s.orelse), block(s.finalbody)
            elif isinstance(s, ast.Assert):
                expr(s.test)
                if s.msg is not None:
                    expr(s.msg)
            elif isinstance(s, ast.Raise):
                if s.exc is not None:
                    expr(s.exc)
                if s.cause is not None:
                    expr(s.cause)
            elif isinstance(s, ast.Match):
                expr(s.subject)
                for c in s.cases:
                    pattern(c.pattern)
                    if c.guard is not None:
                        expr(c.guard)
                    block(c.body)
            else:
                raise OutsideGrammar("statement " + type(s).__name__)

        self._in_index = 0
        if u.is_expr:
            expr(u.body)
        else:
            block(u.body)

    # ---------------------------------------------------------------- closure
    def binding(self, site):
        """callee parameter -> argument spelling, as CPython binds the call; None if rejected."""
        args = ([site.self_ if site.stored else "@Instance"] if site.unit.kind == "init" else []) + site.args
        return rl.python_binding(site.unit.sig, {"args": args, "kwargs": site.kwargs})

    def derive(self, u, depth, memo):
        key = (u.uid, depth)
        if key in memo:
            return memo[key]
        out = {k: set(u.own[k]) for k in KINDS}
        if depth > 0:
            for s in u.sites:
                if s.unit is None:
                    continue
                b = self.binding(s)
                if b is None:
                    continue
                sub = self.derive(s.unit, depth - 1, memo)
                for k in KINDS:
                    for full in sub[k]:
                        r = rl.subst(b, full, rl.root_var(full))
                        if r is not None:
                            out[k].add(r[0])
        memo[key] = out
        return out

    def unroll(self, root):
        """ONE UNROLLING of every call cycle, in the callable itself and in every caller: the accesses derivable
        along the call paths from `root` that visit no callable twice, plus — where a path closes a cycle (calls a
        callable already on the path, the root included) — that callable's OWN accesses once more, under the
        bindings of the whole path.  This is what "contains at least one full unrolling of every call cycle"
        demands of `root`; on acyclic graphs it is the closure itself."""
        memo = {}

        def go(u, path, d):
            key = (u.uid, path)
            if key in memo:
                return memo[key]
            out = {k: set(u.own[k]) for k in KINDS}
            if d <= 12:
                for s in u.sites:
                    if s.unit is None:
                        continue
                    b = self.binding(s)
                    if b is None:
                        continue
                    sub = s.unit.own if s.unit.uid in path else go(s.unit, path | {s.unit.uid}, d + 1)
                    for k in KINDS:
                        for full in sub[k]:
                            r = rl.subst(b, full, rl.root_var(full))
                            if r is not None:
                                out[k].add(r[0])
            memo[key] = out
            return out

        return go(root, frozenset([root.uid]), 0)

    def all_bare(self):
        """every argument of every resolved call site of the project is a bare name or a constant: the set of
        derivable names is finite and `closure` can be computed as a fixpoint"""
        for m in self.mods.values():
            for u in m.units.values():
                for s in u.sites:
                    if s.unit is None:
                        continue
                    allargs = ([s.self_] if (s.unit.kind == "init" and s.self_ is not None) else []) + s.args + [v for _, v in s.kwargs]
                    if any(not (re.fullmatch(r"[A-Za-z_]\w*", a) or a.startswith("@")) for a in allargs):
                        return False
        return True

    def closure(self, u, memo, n):
        """everything derivable for `u` by finitely many substitutions: the least fixpoint where the arguments
        are bare (finite universe), the unfolding to depth 2n+2 otherwise (as before)."""
        d = 2 * n + 2
        if not self.all_bare():
            return self.derive(u, d, memo)
        units = [x for m in self.mods.values() for x in m.units.values()]
        while d < 400:
            if all(self.derive(x, d, memo) == self.derive(x, d + 1, memo) for x in units):
                break
            d += 1
        return self.derive(u, d, memo)

    def roots(self):
        return list(self.target.units.values())

    def reach(self, root):
        """[(depth of the caller, caller Unit, Site)] over every path (bounded), and whether a cycle is met."""
        out, cyc = [], [False]

        def go(u, d, path):
            if d > 12:
                return
            for s in u.sites:
                if s.unit is None:
                    continue
                out.append((d, u, s))
                if s.unit.uid in path:
                    cyc[0] = True
                    continue
                go(s.unit, d + 1, path | {s.unit.uid})

        go(root, 0, {root.uid})
        return out, cyc[0]

    def features(self, root):
        """Syntactic features of the call graph under `root` that put it outside the fragments where the
        pinned code is proved right; each names one known finding. Never looks at any output."""
        feats = set()
        edges, cyc = self.reach(root)
        if cyc:
            feats.add("cycle")
        recs = {}
        for d, caller, s in edges:
            b = self.binding(s)
            if b is None:
                feats.add("python-rejected-call")
            allargs = ([s.self_] if (s.unit.kind == "init" and s.self_ is not None) else []) + s.args + [v for _, v in s.kwargs]
            if d >= 1 and any(not re.fullmatch(r"[A-Za-z_]\w*", a) for a in allargs):
                feats.add("compound-argument")
            if s.unit.kind == "init" and not s.stored:
                feats.add("unstored-instance")
            if s.unit.kind == "init" and s.unit.mod != caller.mod:
                feats.add("imported-class-initialiser")
            # the three KNOWN C04 defect classes leak into substitution; recognised from the signature and the
            # call alone (the same conditions as `resultslib.graph_features`)
            sig = s.unit.sig
            full_args = ([s.self_ if s.stored else "@Instance"] if s.unit.kind == "init" else []) + s.args
            pb = rl.c04mod.python_bind(sig, {"args": full_args, "kwargs": s.kwargs})
            if pb[0] == "ok":
                # NOT a feature: a keyword spelled like a positional-only / *args / **kwargs parameter of a callee
                # with **kwargs (`record(ev, event=x)` for `def record(event, /, **fields)`).  The pinned code
                # DIAGNOSES such a call (the C04 row `accepted-call-diagnosed:keyword-equals-...`), but the swaps
                # it builds are Python's binding (`C03_swaps_are_binding_inside_E1`): the closure must hold.
                if len(full_args) < len(sig["posonly"]):
                    feats.add("c04-binding-finding")
                if sig["kwarg"] and not pb[3]:
                    feats.add("c04-binding-finding")
            if s.in_index or s.unit.has_index or caller.has_index:
                feats.add("subscript-index")
            # `edges` lists a site once per PATH that reaches it from the root
            key = (caller.mod, s.record())
            recs[key] = recs.get(key, 0) + 1
        # rattr's Call symbols compare by spelling (name, arguments) and a location-blind target; the tree-global
        # `seen` set holds (symbol, file the call is made in): a record met a second time in the same file — the same
        # site along another path, or another site of that file with the same spelling — is not expanded again
        if any(n > 1 for n in recs.values()):
            feats.add("same-call-on-two-paths")
        if root.has_index:
            feats.add("subscript-index")
        return feats

    def module_roots(self, u):
        """module-level names bound to MODULES anywhere in the project: a dotted callee spelling through one
        of them (`al.K.sm()` records the get `al.K`) is not an access of a parameter or local."""
        out = set()
        for m in self.mods.values():
            out |= m.import_roots
        return out


FEATURE_PRIORITY = ["imported-class-initialiser", "compound-argument", "same-call-on-two-paths", "c04-binding-finding", "subscript-index"]


def judge(proj: Project, doc):
    """[(function key, None | (what, kind, detail), features)] for every function of the target file."""
    out = []
    memo = {}
    n = sum(len(m.units) for m in proj.mods.values())
    for u in proj.roots():
        feats = proj.features(u)
        want = proj.closure(u, memo, n)
        low = proj.unroll(u)
        ent = doc.get(u.key)
        if ent is None:
            out.append((u.key, ("function-missing", "doc", sorted(doc)), feats))
            continue
        modroots = proj.module_roots(u)
        captures = set().union(*[x.captures for m in proj.mods.values() for x in m.units.values()])
        lenient_at = "unstored-instance" in feats
        bad = None
        for k in KINDS:
            def keep(x):
                r = rl.root_var(x)
                if r in modroots:
                    return False            # the dotted spelling of a callee through a module alias
                if r in captures:
                    return False            # [interp] a name bound by a match pattern is a string in the AST
                if lenient_at and r.startswith("@"):
                    return False            # [interp] an instance that is not stored has no expression
                return True
            got = {x for x in ent[k] if keep(x)}
            w = {x for x in want[k] if keep(x)}
            lo = {x for x in low[k] if keep(x)}
            if "cycle" in feats:
                if not lo <= got:
                    bad = ("missing-one-unrolling", k, sorted(lo - got))
                elif not got <= w:
                    bad = ("not-derivable", k, sorted(got - w))
            elif got != w:
                bad = ("closure-mismatch", k, {"missing": sorted(w - got), "extra": sorted(got - w)})
            if bad:
                break
        if bad is None:
            own_calls = sorted({s.callee + "()" for s in u.sites})
            if sorted(ent["calls"]) != own_calls:
                bad = ("calls-not-own", "calls", {"got": sorted(ent["calls"]), "want": own_calls})
        out.append((u.key, bad, feats))
    return out


def signature_of(bad, feats):
    if "python-rejected-call" in feats:
        return None
    for f in FEATURE_PRIORITY:
        if f in feats:
            return f"closure-violated:{f}"
    return f"closure-violated:project-clean-fragment:{bad[0]}:{bad[1]}"


# ====================================================================== generator


def ind(lines, n=1):
    return ["    " * n + l for l in lines]


def render_sig(sig, lead=()):
    parts = list(lead)
    for p in sig["posonly"]:
        parts.append(p["name"] + ("=None" if p["default"] else ""))
    if sig["posonly"]:
        parts.append("/")
    for p in sig["args"]:
        parts.append(p["name"] + ("=None" if p["default"] else ""))
    if sig["vararg"]:
        parts.append("*" + sig["vararg"])
    elif sig["kwonly"]:
        parts.append("*")
    for p in sig["kwonly"]:
        parts.append(p["name"] + ("=None" if p["default"] else ""))
    if sig["kwarg"]:
        parts.append("**" + sig["kwarg"])
    return ", ".join(parts)


MODULE_LAYOUTS = [
    # (module name, relative path, extra files)
    ("ma{n}", "ma{n}.py", {}),
    ("mb{n}", "mb{n}.py", {}),
    ("pk{n}.mc{n}", "pk{n}/mc{n}.py", {"pk{n}/__init__.py": ""}),
    ("pk{n}.sub.md{n}", "pk{n}/sub/md{n}.py", {"pk{n}/__init__.py": "", "pk{n}/sub/__init__.py": ""}),
    ("ns{n}.me{n}", "ns{n}/me{n}.py", {}),                                   # namespace package (no __init__)
]
SHARED_HELPERS = ["_normalise", "_helper", "check", "Record", "_Impl"]


# every position a CALL can sit in (decorators aside): `{c}` the call, `{p}` a parameter of the caller, `{i}` a tag.
# Each entry is the list of lines of one statement.
PLACEMENTS = [
    ["if {c}:", "    pass"],
    ["if {p}.c{i}:", "    pass", "elif {c}:", "    {p}.e{i}"],
    ["while {c}:", "    break"],
    ["while {p}.w{i}:", "    break", "else:", "    {c}"],
    ["for it{i} in {c}:", "    pass"],
    ["for it{i} in {p}.seq{i}:", "    continue", "else:", "    {c}"],
    ["with {c}:", "    pass"],
    ["with {c} as w{i}:", "    pass"],
    ["with {p}.cm{i} as w{i}, {c} as v{i}:", "    pass"],
    ["[1 for e{i} in {p}.seq{i} if {c}]"],
    ["[{c} for e{i} in {p}.seq{i}]"],
    ["[1 for e{i} in {c}]"],
    ["{{e{i}: {c} for e{i} in {p}.seq{i}}}"],
    ["{{1 for e{i} in {p}.seq{i} if {p}.f{i} if {c}}}"],
    ["any(1 for e{i} in {p}.seq{i} if {c})"],
    ["return {c}"],
    ["return ({c}, {p}.rt{i})"],
    ["(lambda: {c})"],
    ["(lambda: ({p}.la{i}, {c}))"],
    ["f\"{{{c}}}\""],
    ["print(f\"v={{{c}!r:>{{{p}.width{i}}}}}\")"],
    ["assert {c}"],
    ["assert {p}.ok{i}, {c}"],
    ["raise {c}"],
    ["raise ValueError({p}.m{i}) from {c}"],
    ["match {c}:", "    case 1:", "        pass"],
    ["match {p}.k{i}:", "    case 1 if {c}:", "        pass", "    case _:", "        pass"],
    ["match {p}.k{i}:", "    case [mc{i}a, *mc{i}b] if {c}:", "        pass"],
    ["match {p}.k{i}:", "    case {{'k': mc{i}a, **mc{i}b}} if {p}.g{i} and {c}:", "        {p}.body{i}"],
    ["match {p}.k{i}:", "    case 1 | 2:", "        pass", "    case str() as mc{i}a if not {c}:", "        pass"],
    ["match {p}.k{i}:", "    case {p}.CONST{i} if {p}.g{i}:", "        {c}"],
    ["{c} and {p}.b{i}"],
    ["{p}.b{i} or {c}"],
    ["not {c}"],
    ["-{c} + 1"],
    ["{p}.x{i} < {c} <= 3"],
    ["{c} if {p}.t{i} else 0"],
    ["0 if {c} else {p}.t{i}"],
    ["[{c}, {p}.li{i}]"],
    ["{{'k': {c}}}"],
    ["{{{c}}}"],
    ["try:", "    {c}", "except Exception:", "    pass"],
    ["try:", "    pass", "except Exception:", "    {c}"],
    ["try:", "    pass", "except {c}:", "    pass"],
    ["try:", "    pass", "except Exception:", "    pass", "else:", "    {c}"],
    ["try:", "    pass", "finally:", "    {c}"],
    ["r{i} = {c}"],
    ["r{i}, s{i} = {c}, {p}.un{i}"],
    ["{p}.st{i} = {c}"],
    ["print({c}, {p}.pr{i})"],
    ["print(sep={c})"],
    ["{p}.meth{i}({c})"],
]
GEN_PLACEMENTS = [["yield {c}"], ["y{i} = yield {c}"], ["yield from {c}"]]
ASYNC_PLACEMENTS = [["await {c}"], ["r{i} = await {c}"], ["async for it{i} in {c}:", "    pass"], ["async with {c} as w{i}:", "    pass"]]
# inside a subscript index the pinned analyser visits nothing (`visit_compound_name` descends into `.value` only: the C01
# row `missed-access:subscript-index`): the call is lost -> known finding `closure-violated:subscript-index` (wild mode only)
INDEX_PLACEMENTS = [["del {p}.d{i}[{c}]"], ["{p}.t{i}[{c}]"], ["{p}.t{i}[{c}] = 1"], ["del {p}.d{i}[{p}.ix{i}]"]]
LAMBDA_PLACEMENTS = ["({c} if {p}.t{i} else 0)", "[{c}]", "f\"{{{c}}}\"", "({c} and {p}.b{i})", "[1 for e{i} in {p}.seq{i} if {c}]",
                     "(lambda: {c})", "(not {c})", "{{'k': {c}}}", "(0 if {c} else 1)"]
# a statement under a compound statement
NESTINGS = [
    ["if {p}.c{i}:", "    {body}"],
    ["if {p}.c{i}:", "    pass", "else:", "    {body}"],
    ["for it{i} in {p}.seq{i}:", "    {body}"],
    ["while {p}.w{i}:", "    {body}", "    break"],
    ["with {p}.cm{i}:", "    {body}"],
    ["with {p}.cm{i} as w{i}:", "    {body}"],
    ["try:", "    {body}", "except Exception:", "    pass"],
    ["try:", "    pass", "except Exception:", "    {body}"],
    ["try:", "    pass", "finally:", "    {body}"],
    ["match {p}.k{i}:", "    case 1:", "        {body}"],
    ["match {p}.k{i}:", "    case 0:", "        pass", "    case _ if {p}.g{i}:", "        {body}"],
    ["match {p}.k{i}:", "    case (mc{i}x, mc{i}y):", "        {body}"],
]


class ProjGen:
    """mode: 'tree' | 'depth1' | 'cycle' | 'wild' (see module docstring).

    Round 3, in EVERY mode: signatures over all five parameter kinds (`*args` / `**kwargs` too; a callee with
    `**kwargs` is called with keywords spelled like its positional-only / `*args` / `**kwargs` parameters, which
    Python puts into `**kwargs`); every call statement may sit in any position a call can sit in (`PLACEMENTS`)
    and under any compound statement (`NESTINGS`).  `cycle`: the forest of `tree` plus recursion of every kind
    of callable — a function / lambda / static method / initialiser calling itself, two callables of one file
    calling each other (static <-> function, static <-> static of one class, function <-> function), longer
    cycles — with bare, NON-IDENTITY arguments (a permutation / duplication of the caller's parameters)."""

    def __init__(self, rng, mode, n_modules=None):
        self.r, self.mode = rng, mode
        self.bare = mode in ("tree", "cycle")
        self.n_mod = n_modules if n_modules is not None else rng.choice([0, 1, 2, 2, 2, 3, 3])
        self.shared_names = rng.random() < 0.3
        self.collide = self.n_mod >= 1 and rng.random() < 0.75
        self.units, self.mods = [], []

    # ------------------------------------------------------------ structure
    def layout(self):
        r = self.r
        mods = [{"name": "target", "rel": "target.py", "extra": {}}]
        if r.random() < 0.25:
            mods[0] = {"name": "app.main_t", "rel": "app/main_t.py", "extra": {"app/__init__.py": ""}}
        for n in range(self.n_mod):
            name, rel, extra = r.choice(MODULE_LAYOUTS)
            mods.append({"name": name.format(n=n), "rel": rel.format(n=n), "extra": {k.format(n=n): v for k, v in extra.items()}})
        self.mods = mods

    def signature(self, i, kind):
        r = self.r
        n = r.randint(1, 3)
        names = [f"p{i}{c}" for c in "abc"[:n]]
        if self.shared_names:
            names = r.sample(["left", "right", "item", "other"], n)
        rich = self.mode not in ("tree", "cycle") or r.random() < 0.6
        kinds = [r.choice(["po", "ar", "ar", "ar", "ko"]) if rich else "ar" for _ in names]
        if kind == "lambda" and r.random() < 0.5:
            kinds = ["ar"] * n
        kinds.sort(key={"po": 0, "ar": 1, "ko": 2}.get)
        po = [a for a, k in zip(names, kinds) if k == "po"]
        ar = [a for a, k in zip(names, kinds) if k == "ar"]
        ko = [a for a, k in zip(names, kinds) if k == "ko"]
        pos = po + ar
        ndef = r.choice([0, 0, 0, 1]) if pos else 0
        dpos = [j >= len(pos) - ndef for j in range(len(pos))]
        sig = {"posonly": [{"name": x, "default": dpos[j]} for j, x in enumerate(po)],
               "args": [{"name": x, "default": dpos[len(po) + j]} for j, x in enumerate(ar)],
               "vararg": None, "kwonly": [{"name": x, "default": r.random() < 0.4} for x in ko], "kwarg": None}
        if rich:
            if r.random() < (0.1 if self.mode == "wild" else 0.15):
                sig["vararg"] = f"va{i}"
            if r.random() < (0.15 if self.mode == "wild" else 0.3):
                sig["kwarg"] = f"kw{i}"
        return sig

    def build_units(self):
        r = self.r
        nm = len(self.mods)
        n = r.randint(3, 9) + (nm - 1)
        us = []
        for i in range(n):
            kind = r.choice(["def"] * 5 + ["async", "init", "init", "static", "lambda"] if self.mode != "cycle" else
                            ["def"] * 3 + ["async", "init", "static", "static", "static", "lambda"])
            # the target holds at least two callables; the others are spread over the followed modules
            mod = 0 if (i < 2 or nm == 1) else r.choice([0] + list(range(1, nm)) * 2)
            us.append({"i": i, "kind": kind, "mod": mod, "sig": self.signature(i, kind)})
        # callers before callees: (module index, i); an edge a -> b only for a before b, so imports are acyclic
        us.sort(key=lambda u: (u["mod"], u["i"]))
        for j, u in enumerate(us):
            u["i2"] = j
        names = {"def": "pf", "async": "pa", "init": "PK", "static": "PS", "lambda": "pl"}
        for u in us:
            u["name"] = f"{names[u['kind']]}{u['i']}"
        # ---- same-named, same-signature helpers in different files (each file has its own)
        if self.collide:
            base = r.choice(SHARED_HELPERS)
            cands = {}
            for u in us:
                cands.setdefault(u["mod"], []).append(u)
            # preferably not the first callable of its file: an earlier one of the same file can then call it
            chosen = [r.choice(v[1:]) if len(v) > 1 else v[0] for k, v in cands.items() if r.random() < (0.9 if len(v) > 1 else 0.35)]
            if len(chosen) >= 2:
                kind = "init" if base in ("Record", "_Impl") else r.choice(["def", "def", "def", "lambda", "async"])
                sig = chosen[0]["sig"]
                for u in chosen:
                    u["kind"], u["name"], u["sig"], u["shared"] = kind, base, json.loads(json.dumps(sig)), True
        # ---- classes with several members: static methods of one file share a class (with each other, with an
        # initialiser); the file walk analyses the initialiser first, then the static methods in source order
        for u in us:
            u["cls"], u["meth"] = u["name"], "sm"
        group_p = 0.6 if self.mode == "cycle" else 0.25
        last = {}
        for u in us:
            if u.get("shared") or u["kind"] not in ("static", "init"):
                continue
            host = last.get(u["mod"])
            if u["kind"] == "static" and host is not None and r.random() < group_p:
                u["cls"] = u["name"] = host["cls"]
                u["meth"] = f"sm{u['i']}"
            else:
                last[u["mod"]] = u
        for u in us:
            u["call"] = u["name"] + ("." + u["meth"] if u["kind"] == "static" else "")
            u["params"] = sig_params(u["sig"])
        # ---- edges
        edges = {u["i2"]: [] for u in us}
        order = list(range(len(us)))

        def ok(a, b):
            # an imported class is not seen as a constructor call (known finding): wild mode only
            return self.mode == "wild" or not (us[b]["kind"] == "init" and us[b]["mod"] != us[a]["mod"])

        if self.mode in ("tree", "cycle"):
            # a forest over ALL files: every callable outside the target has exactly one call site (so the whole
            # project hangs under the target's functions), a target callable has one with probability 1/2; a
            # same-named helper is preferably called from its own file (each file uses its own helper)
            for b in order[1:]:
                if us[b]["mod"] == 0 and r.random() < 0.5:
                    continue
                cands = [a for a in order[:b] if ok(a, b)]
                same = [a for a in cands if us[a]["mod"] == us[b]["mod"] and not us[a].get("shared")]
                if us[b].get("shared") and same and r.random() < 0.9:
                    cands = same
                if not cands:
                    continue
                w = [1 + 2 * (a >= b - 3) + (us[a]["mod"] == us[b]["mod"]) for a in cands]
                edges[r.choices(cands, weights=w)[0]].append(b)
        else:
            for a in order:
                for b in order[a + 1:]:
                    p = 0.5 if b == a + 1 else 0.28
                    if r.random() < p and ok(a, b):
                        edges[a].append(b)
                        if self.mode == "wild" and r.random() < 0.15:
                            edges[a].append(b)
            if self.mode == "depth1":
                # every callee is a leaf: a callable that is called loses its own calls
                for b in {b for a in order for b in edges[a]}:
                    edges[b] = []
            elif r.random() < 0.3:
                a, b = r.randrange(len(us)), r.randrange(len(us))
                if us[max(a, b)]["mod"] == us[min(a, b)]["mod"]:
                    edges[max(a, b)].append(min(a, b))
        if self.mode == "cycle":
            # recursion of every kind of callable, on top of the forest.  Within one file only (imports stay acyclic).
            kids = {a: list(edges[a]) for a in order}

            def below(a):
                out, todo = [], list(kids[a])
                while todo:
                    x = todo.pop()
                    if x not in out and us[x]["mod"] == us[a]["mod"]:
                        out.append(x)
                        todo += kids[x]
                return out

            wide = [a for a in order if len(us[a]["params"]) >= 2] or order
            for _ in range(r.choice([1, 2, 2, 3])):
                form = r.choice(["self", "self", "mutual", "long", "kind"])
                if form == "self":
                    a = r.choice(wide)
                    edges[a].append(a)
                elif form == "kind":
                    # direct recursion of a static method / initialiser / lambda if there is one
                    cands = [a for a in order if us[a]["kind"] in ("static", "init", "lambda")]
                    if cands:
                        a = r.choice(cands)
                        edges[a].append(a)
                else:
                    pairs = [(a, b) for a in order for b in (kids[a] if form == "mutual" else below(a))
                             if b != a and us[a]["mod"] == us[b]["mod"]]
                    if pairs:
                        a, b = r.choice(pairs)
                        edges[b].append(a)
                        us[b]["back"] = a
        for u in us:
            u["edges"] = edges[u["i2"]]
        self.units = us
        return us

    # ------------------------------------------------------------ import forms
    def import_for(self, caller_mod, callee):
        """Make `callee` callable from module index `caller_mod`; returns the spelled callee."""
        if callee["mod"] == caller_mod:
            return callee["call"]
        r = self.r
        m = self.mods[caller_mod]
        tgt = self.mods[callee["mod"]]
        imports = m.setdefault("imports", {})          # key -> statement
        taken = m.setdefault("taken", set())
        forms = ["from", "from", "import-as"]
        if "." not in tgt["name"]:
            forms.append("import")
        else:
            forms.append("from-parent")
        if callee["kind"] == "static":
            forms = [f for f in forms if f != "from"]          # `from m import K; K.sm()` is not followed (C06 finding)
        form = r.choice(forms)
        local_names = {u["name"] for u in self.units if u["mod"] == caller_mod}
        if form == "from" and (callee["name"] in local_names or callee["name"] in taken
                               and imports.get(("from", tgt["name"], callee["name"])) is None):
            form = "import-as"
        if form == "from":
            imports[("from", tgt["name"], callee["name"])] = f"from {tgt['name']} import {callee['name']}"
            taken.add(callee["name"])
            return callee["call"]
        if form == "import":
            imports[("import", tgt["name"])] = f"import {tgt['name']}"
            return f"{tgt['name']}.{callee['call']}"
        if form == "from-parent":
            parent, leaf = tgt["name"].rsplit(".", 1)
            imports[("from-parent", tgt["name"])] = f"from {parent} import {leaf}"
            return f"{leaf}.{callee['call']}"
        alias = f"al_{tgt['name'].replace('.', '_')}"
        imports[("import-as", tgt["name"])] = f"import {tgt['name']} as {alias}"
        return f"{alias}.{callee['call']}"

    # ------------------------------------------------------------ calls
    def arg_expr(self, pool, shape, i):
        r = self.r
        p = r.choice(pool) if pool else "glob"
        return {"param": p, "attr": f"{p}.n{i}", "deep": f"{p}.n{i}.o{i}", "sub": f"{p}[0]", "subattr": f"{p}[0].n{i}",
                "attrsub": f"{p}.n{i}[1]", "const": r.choice(["1", "'s'", "None"])}[shape]

    def call_to(self, u, c, spelled, uniq=None, nonid=False):
        """one call of `c` from `u`; `nonid`: the arguments are not the callee's own parameters in place (a
        recursive call that passes its parameters through unchanged unrolls to nothing new)"""
        for _ in range(12):
            text, pairs = self._call_to(u, c, spelled)
            if not nonid or any(a != b for a, b in pairs) or len(u["params"]) < 2:
                return text
        return text

    def _call_to(self, u, c, spelled):
        r = self.r
        sig, i = c["sig"], c["i"]
        pool = list(u["params"]) or ["glob"]
        if self.bare:
            shapes = ["param"]
        elif self.mode == "depth1":
            shapes = ["param", "param", "attr", "deep", "sub", "subattr", "attrsub"]
        else:
            shapes = ["param", "param", "param", "attr", "sub", "deep"]
        parts, pairs = [], []
        pos = sig["posonly"] + sig["args"]
        required = [p for p in pos if not p["default"]]
        lo = max(len(required), len(sig["posonly"])) if self.mode != "wild" else len(sig["posonly"])
        k = r.randint(min(lo, len(pos)), len(pos)) if pos else 0
        if r.random() < 0.5:
            k = max(lo, min(k, len(sig["posonly"]) + r.randint(0, 1)))      # more keywords
            k = min(k, len(pos))
        for j in range(k):
            parts.append(self.arg_expr(pool, r.choice(shapes), i))
            pairs.append((pos[j]["name"], parts[-1]))
        kws = []
        for p in sig["args"][max(0, k - len(sig["posonly"])):]:
            if not p["default"] or r.random() < 0.5:
                kws.append(f"{p['name']}={self.arg_expr(pool, r.choice(shapes), i)}")
                pairs.append(tuple(kws[-1].split("=", 1)))
        for p in sig["kwonly"]:
            if not p["default"] or r.random() < 0.5:
                kws.append(f"{p['name']}={self.arg_expr(pool, r.choice(shapes), i)}")
                pairs.append(tuple(kws[-1].split("=", 1)))
        if sig["kwarg"]:
            # keywords that go into **kwargs.  Python accepts a keyword spelled like a POSITIONAL-ONLY parameter that was
            # given by position, like the *args parameter, like the **kwargs parameter itself: `record(ev, event=x)` for
            # `def record(event, /, **fields)` binds event := ev, fields := {"event": x}
            clash = [p["name"] for p in sig["posonly"][:k]] + [x for x in (sig["vararg"], sig["kwarg"]) if x]
            chosen = [x for x in clash if r.random() < 0.45]
            given = dict(pairs)
            for name in chosen:
                v = self.arg_expr(pool, r.choice(shapes), i)
                for _ in range(6):
                    if v != given.get(name):
                        break
                    v = self.arg_expr(pool, r.choice(shapes), i)        # not the value the parameter got by position
                kws.append(f"{name}={v}")
            # outside `wild`, **kwargs always receives something (nothing -> the C04 row `kwargs-parameter-receiving-nothing`)
            if (self.mode != "wild" and not chosen) or r.random() < (0.6 if self.mode == "wild" else 0.3):
                kws.append(f"extra{i}={self.arg_expr(pool, 'param', i)}")
        r.shuffle(kws)
        if sig["vararg"] and k >= len(pos) and r.random() < 0.5:
            for _ in range(r.choice([1, 1, 2])):
                parts.append(self.arg_expr(pool, "param" if self.mode == "wild" else r.choice(shapes), i))
        return f"{spelled}({', '.join(parts + kws)})", pairs

    def call_stmt(self, u, c, spelled, in_lambda=False):
        r = self.r
        call = self.call_to(u, c, spelled, None, nonid=(c is u or c.get("back") is not None or u.get("back") is not None))
        i = c["i"]
        pool = list(u["params"]) or ["glob"]
        h = r.choice(pool)
        if c["kind"] == "init":
            if in_lambda:
                return call if self.mode == "wild" else f"(x{i} := {call})"
            if self.bare:
                forms = ["name", "name", "ann-name", "walrus", "walrus-cond"]
            elif self.mode == "depth1":
                forms = ["name", "attr", "attr", "item", "deep", "attritem", "ann-attr", "aug-attr", "walrus", "ann-name", "itemattr", "walrus-cond"]
            else:
                forms = ["name", "attr", "item", "bare", "return", "print", "deep", "placed"]
            f = r.choice(forms)
            t = {"name": f"x{i}", "attr": f"{h}.inst{i}", "item": f"{h}[0]", "deep": f"{h}.a{i}.inst{i}", "attritem": f"{h}.rows{i}[0]",
                 "itemattr": f"{h}[0].inst{i}", "ann-attr": f"{h}.inst{i}", "aug-attr": f"{h}.inst{i}", "ann-name": f"x{i}"}.get(f)
            if f in ("name", "attr", "item", "deep", "attritem", "itemattr"):
                out = [f"{t} = {call}"]
            elif f in ("ann-attr", "ann-name"):
                out = [f"{t}: object = {call}"]
            elif f == "aug-attr":
                out = [f"{t} += {call}"]
            elif f == "walrus":
                out = [f"(x{i} := {call})"]
            elif f == "walrus-cond":
                out = self.place(u, f"(x{i} := {call})", i, h)
            elif f == "bare":
                out = [call]
            elif f == "return":
                out = [f"return {call}"]
            elif f == "placed":
                out = self.place(u, call, i, h)         # an instance that is not stored, anywhere
            else:
                out = [f"print({call})"]
            return self.nest(u, out, i, h)
        if in_lambda:
            return r.choice(LAMBDA_PLACEMENTS).format(c=call, p=h, i=i) if r.random() < 0.5 else call
        form = r.choice(["expr", "assign", "return", "print", "tuple"] + ["placed"] * 6)
        if form == "expr":
            out = [call]
        elif form == "assign":
            out = [f"r{i} = {call}"]
        elif form == "return":
            out = [f"return {call}"]
        elif form == "print":
            out = [f"print({call})"]
        elif form == "tuple":
            out = [f"t{i} = ({call}, {h}.tu{i})"]
        else:
            out = self.place(u, call, i, h)
        return self.nest(u, out, i, h)

    def place(self, u, call, i, h):
        """the call as a sub-expression, in one of the positions a call can sit in"""
        r = self.r
        kind = u["kind"]
        cands = list(PLACEMENTS)
        if kind == "async":
            cands += ASYNC_PLACEMENTS * 3
        elif kind in ("def", "static"):
            cands += GEN_PLACEMENTS
        if self.mode == "wild":
            cands += INDEX_PLACEMENTS
        t = r.choice(cands)
        return [l.format(c=call, p=h, i=i) for l in t]

    def nest(self, u, lines, i, h):
        """the statement(s) under a compound statement (0-2 levels)"""
        r = self.r
        for _ in range(r.choice([0, 0, 0, 1, 1, 2])):
            t = r.choice(NESTINGS)
            out = []
            for l in t:
                if l == "{body}":
                    out += lines
                elif l.strip() == "{body}":
                    out += ind(lines, (len(l) - len(l.lstrip())) // 4)
                else:
                    out.append(l.format(p=h, i=i))
            lines = out
        return lines

    def accesses(self, u, stmts=True):
        r = self.r
        i = u["i"]
        out = []
        ps = (["self"] if u["kind"] == "init" else []) + u["params"]
        for p in ps:
            if r.random() < 0.85 or p == "self":
                kinds = ["get", "get", "set", "del", "deep", "subget", "setdeep", "setsub", "ret"]
                if not stmts:
                    kinds = ["get", "get", "deep", "subget"]
                if p == "self":
                    kinds = ["set", "set", "setdeep", "get", "del"]
                kind = r.choice(kinds)
                tag = u.get("tag", i)
                out.append({"get": [f"{p}.g{tag}"], "set": [f"{p}.s{tag} = 1"], "del": [f"del {p}.d{tag}"], "deep": [f"{p}.m{tag}.q{tag}"],
                            "subget": [f"{p}[0].i{tag}"], "setdeep": [f"{p}.m{tag}.s{tag} = None"], "setsub": [f"{p}[0] = 1"],
                            "ret": [f"return {p}.r{tag}"]}[kind])
        return out

    def unit_source(self, u):
        r = self.r
        k = u["kind"]
        callees = [self.units[j] for j in u["edges"]]
        spelled = [self.import_for(u["mod"], c) for c in callees]
        if k == "lambda":
            items = [x[0] for x in self.accesses(u, stmts=False)] + [self.call_stmt(u, c, s, in_lambda=True) for c, s in zip(callees, spelled)]
            r.shuffle(items)
            body = "(" + ", ".join(items) + ("," if len(items) == 1 else "") + ")" if items else "0"
            return [f"{u['name']} = lambda {render_sig(u['sig'])}: {body}"]
        body = self.accesses(u)
        for c, s in zip(callees, spelled):
            body.append(self.call_stmt(u, c, s))
        r.shuffle(body)
        # a `return` ends nothing for a static analyser, but keep Python-plausible: returns last
        body.sort(key=lambda b: b[0].startswith("return "))
        flat = [l for b in body for l in b] or ["pass"]
        if k in ("def", "async"):
            return [f"{'async ' if k == 'async' else ''}def {u['name']}({render_sig(u['sig'])}):"] + ind(flat)
        # a member of class u["cls"]: ("class", class name, attribute lines, member lines); `project` assembles the classes
        if k == "init":
            extra = [f"attr{u['i']} = 1"] if r.random() < 0.4 else []
            return ("class", u["cls"], extra, [f"def __init__({render_sig(u['sig'], lead=['self'])}):"] + ind(flat))
        if k == "static":
            extra = [f"attr{u['i']} = 1"] if r.random() < 0.3 else []
            return ("class", u["cls"], extra, ["@staticmethod", f"def {u['meth']}({render_sig(u['sig'])}):"] + ind(flat))
        raise AssertionError(k)

    def project(self):
        """-> (files: rel -> source, target rel)"""
        r = self.r
        self.layout()
        us = self.build_units()
        chunks = {m: [] for m in range(len(self.mods))}
        classes = {}
        for u in us:
            src = self.unit_source(u)
            if isinstance(src, tuple):
                _, cls, attrs, member = src
                key = (u["mod"], cls) if not u.get("shared") else (u["mod"], cls, u["i"])
                if key not in classes:
                    classes[key] = {"attrs": [], "members": []}
                    chunks[u["mod"]].append(classes[key])
                classes[key]["attrs"] += attrs
                classes[key]["members"].append(member)
                classes[key]["name"] = cls
            else:
                chunks[u["mod"]].append(src)
        for mi in chunks:
            for j, c in enumerate(chunks[mi]):
                if isinstance(c, dict):
                    # members in any order: a static method is resolvable from its own body and from every body analysed
                    # later (the initialiser is analysed first wherever it stands)
                    r.shuffle(c["members"])
                    chunks[mi][j] = [f"class {c['name']}:"] + ind(c["attrs"]) + [l for mem in c["members"] for l in ind(mem)]
        files = {}
        for mi, m in enumerate(self.mods):
            cs = chunks[mi]
            r.shuffle(cs)
            head = sorted(set(m.get("imports", {}).values()))
            r.shuffle(head)
            lines = ['"""generated"""'] + head
            for c in cs:
                lines += c
            files[m["rel"]] = "\n".join(lines) + "\n"
            for k, v in m["extra"].items():
                files.setdefault(k, v)
        return files, self.mods[0]["rel"]


def gen_project(rng, mode, n_modules=None):
    for attempt in range(400):
        if attempt == 300:
            mode = "tree"       # never reached in practice; the check must not die on an unlucky stream
        g = ProjGen(rng, mode, n_modules=n_modules)
        files, target = g.project()
        try:
            for rel, src in files.items():
                compile(src, rel, "exec", dont_inherit=True)        # also: `await` / `yield` / `return` placement rules
            proj = Project(files, target)
        except (OutsideGrammar, SyntaxError):
            continue
        if mode not in ("wild", "cycle") and proj.forward_static:
            continue        # a static method called from a body analysed before it is registered (unresolvable: C08's row)
        if mode != "wild":
            # the fragment is asserted syntactically on the generated text (never on any output)
            feats = set()
            for m in proj.mods.values():
                for u in m.units.values():
                    feats |= proj.features(u)
            if feats - ({"cycle"} if mode == "cycle" else set()):
                continue
            if mode == "cycle" and "cycle" not in feats:
                continue
            if mode == "depth1" and any(s.unit is not None and any(t.unit is not None for t in s.unit.sites)
                                        for m in proj.mods.values() for u in m.units.values() for s in u.sites):
                continue
        return files, target, proj
    raise RuntimeError("generator cannot produce a project inside its own grammar")


# ====================================================================== the implementation


def write_project(files):
    tmp = Path(tempfile.mkdtemp(prefix="rattr-c03proj-"))
    for rel, text in files.items():
        p = tmp / rel
        p.parent.mkdir(parents=True, exist_ok=True)
        p.write_text(text)
    return tmp


def argv_for(target_rel, follow=1):
    return ["-o", "results", "-f", str(follow), "-w", "all", target_rel]


def _doc(text):
    d = json.loads(text)
    return {k: {f: sorted(v[f]) for f in ("gets", "sets", "dels", "calls")} for k, v in d.items()}


def run_inprocess(project: Path, target_rel: str, follow=1):
    """The real `rattr.__main__.main` on the project: outcome, printed document, diagnostics."""
    import rattr.__main__ as main_mod
    from rattr.cli import parse_arguments
    from rattr.config import Config, State
    from props.pipeline import _drop_config

    out = io.StringIO()
    with impl.in_dir(str(project)):
        _drop_config()
        impl.clear_caches_fast()
        try:
            with impl.Tap():
                args = parse_arguments(sys_args=argv_for(target_rel, follow))
                cfg = Config(arguments=args, state=State())
            captured = {}
            orig = main_mod.generate_results_from_ir

            def gen(*, target_ir, import_irs):
                # which modules were followed, under which name, in which order (per-case data of the model)
                captured["followed"] = [(name, str(ir.context.file)) for name, ir in import_irs.items()]
                return orig(target_ir=target_ir, import_irs=import_irs)

            with impl.Tap() as tap, contextlib.redirect_stdout(out), mock.patch.object(main_mod, "generate_results_from_ir", gen):
                oc = impl.outcome_of(main_mod.main, cfg)
        finally:
            _drop_config()
    r = {"outcome": oc[0], "exc": "" if oc[0] == "ok" else str(oc[1]), "events": tap.events, "doc": None,
         "followed": captured.get("followed")}
    if oc[0] == "ok":
        try:
            r["doc"] = _doc(out.getvalue())
        except Exception as e:  # noqa
            r["outcome"], r["exc"] = "crash", "unparseable-stdout:" + type(e).__name__
    return r


def run_cli(project: Path, target_rel: str, follow=1, hashseed=0):
    env = dict(os.environ, PYTHONHASHSEED=str(hashseed), PYTHONDONTWRITEBYTECODE="1")
    p = subprocess.run([sys.executable, "-m", "rattr", *argv_for(target_rel, follow)], cwd=str(project), env=env,
                       capture_output=True, text=True, timeout=300)
    r = {"outcome": "ok" if p.returncode == 0 else ("crash" if "Traceback (most recent call last)" in p.stderr else "fatal"),
         "exc": "" if p.returncode == 0 else f"exit {p.returncode}: " + re.sub(r"\x1b\[[0-9;]*m", "", p.stderr)[-300:], "doc": None}
    if p.returncode == 0:
        try:
            r["doc"] = _doc(p.stdout)
        except Exception as e:  # noqa
            r["outcome"], r["exc"] = "crash", "unparseable-stdout:" + type(e).__name__
    return r


# ====================================================================== the Lean project model (Tie B)


def model_files(project: Path, target_rel: str, followed):
    """The `files` of op `project`: the module encodings of the target and of every followed file (in
    `import_irs` order), each with the location facts the file stages need, computed by the real
    locator functions exactly as the file stage harness does."""
    from props import filelib
    from props import visitlib as vl
    from rattr.analyser.util import is_excluded_name
    from rattr.config.state import enter_file
    from rattr.models.symbol import PYTHON_BUILTINS
    from rattr.module_locator.util import derive_module_name_from_path

    out = []
    paths = {}
    with impl.in_dir(str(project)):
        impl.reset_config(target=Path(target_rel), _follow_imports_level=1)
        entries = [("", target_rel)] + [(name, origin) for name, origin in followed]
        for name, origin in entries:
            src = Path(origin).read_text()
            tree = ast.parse(src)
            with enter_file(Path(origin) if name == "" else origin):
                enc = filelib.Encoder()
                body = [enc.top(st) for st in tree.body]
                names = {n.name for n in ast.walk(tree) if isinstance(n, (ast.FunctionDef, ast.AsyncFunctionDef, ast.ClassDef))}
                derived = derive_module_name_from_path(origin)
                real = os.path.realpath(origin)
                out.append({
                    "modName": name, "derived": derived, "pathId": paths.setdefault(real, len(paths)),
                    "env": vl.env_json(), "module": derived or "", "builtins": list(PYTHON_BUILTINS), "body": body,
                    "facts": {"mods": [[n, filelib.mod_fact(n)] for n in sorted(enc.candidates)],
                              "isInit": Path(origin).name == "__init__.py",
                              "excluded": sorted(n for n in names if is_excluded_name(n))},
                })
    return out


def project_facts(project: Path, target_rel: str, quals, call_targets):
    from rattr.analyser.util import is_excluded_name
    from rattr.module_locator.util import find_module_spec_fast, is_in_import_blacklist, is_in_pip, is_in_stdlib

    with impl.in_dir(str(project)):
        cfg = impl.reset_config(target=Path(target_rel), _follow_imports_level=1)
        args = cfg.arguments
        cands = set()
        for q in quals:
            parts = q.split(".")
            for i in range(1, len(parts) + 1):
                cands.add(".".join(parts[:i]))
        existing = sorted(n for n in cands if n and not n.startswith(".") and find_module_spec_fast(n) is not None)
        ignored = sorted(n for n in existing if is_in_import_blacklist(n) or not args.follow_local_imports
                         or (not args.follow_pip_imports and is_in_pip(n))
                         or (not args.follow_stdlib_imports and is_in_stdlib(n)))
        excluded = sorted(n for n in call_targets if is_excluded_name(n))
    return {"existing": existing, "ignored": ignored, "excluded": excluded}


def model_doc(mo):
    d = {}
    for name, ent in mo["doc"]:
        d[name] = {f: list(ent[f]) for f in ("gets", "sets", "dels", "calls")}
    return d


def compare_model(im, mo):
    if "__error__" in mo:
        return "model error: " + str(mo["__error__"])
    if im["outcome"] != mo["outcome"]:
        return f"outcome: impl={im['outcome']}/{im['exc'][:80]} model={mo['outcome']}/{mo.get('exc')}"
    if im["outcome"] != "ok":
        return None
    want, got = im["doc"], model_doc(mo)
    if sorted(want) != sorted(got):
        return f"document functions: impl={sorted(want)} model={sorted(got)}"
    for fn in want:
        for f in ("gets", "sets", "dels", "calls"):
            if want[fn][f] != got[fn][f]:
                return f"document[{fn}].{f}: impl={want[fn][f]} model={got[fn][f]}"
    return None


# ====================================================================== curated projects (run first)

CURATED = [
    ("two-modules-same-helper", {
        "alpha.py": "def _normalise(rec):\n    return rec.alpha_field\ndef load_alpha(src):\n    return _normalise(src)\n",
        "beta.py": "def _normalise(rec):\n    return rec.beta_field\ndef load_beta(raw):\n    return _normalise(raw)\n",
        "target.py": "from alpha import load_alpha\nfrom beta import load_beta\ndef both(a, b):\n    return load_alpha(a), load_beta(b)\ndef only_beta(b):\n    return load_beta(b)\n",
    }, "target.py"),
    ("helper-also-in-target", {
        "gamma.py": "def _helper(rec):\n    rec.in_gamma = 1\ndef load_gamma(src):\n    _helper(src)\n",
        "target.py": "from gamma import load_gamma\ndef _helper(rec):\n    del rec.in_target\ndef use(a, b):\n    load_gamma(a)\n    _helper(b)\n",
    }, "target.py"),
    ("same-class-in-two-modules", {
        "delta.py": "class Record:\n    def __init__(self, raw):\n        self.d = raw.in_delta\ndef mk_delta(src):\n    rec = Record(src)\n    return rec\n",
        "target.py": "import delta as dl\nclass Record:\n    def __init__(self, raw):\n        self.t = raw.in_target\ndef mk(src):\n    mine = Record(src)\ndef use(a, b):\n    dl.mk_delta(a)\n    mk(b)\n",
    }, "target.py"),
    ("instance-stored-in-attribute-and-item", {
        "target.py": "class Point:\n    def __init__(self, src):\n        self.x = src.value\n        self.y = src.other\ndef make_local(a):\n    p = Point(a)\n    return p\n"
                     "def make_attr(holder, a):\n    holder.pt = Point(a)\n    return holder\ndef make_item(table, a):\n    table.rows[0] = Point(a)\n"
                     "def make_deep(h, a):\n    h.a.b[0].c = Point(src=a.inner)\ndef make_ann(h, a):\n    h.pt: object = Point(a)\ndef make_aug(h, a):\n    h.pt += Point(a)\n"
                     "def make_walrus(a):\n    (w := Point(a))\n",
    }, "target.py"),
    ("instance-stored-in-followed-module", {
        "pk/__init__.py": "",
        "pk/shapes.py": "class Point:\n    def __init__(self, src, scale=None):\n        self.x = src.value\n        scale.factor\ndef attach(holder, a):\n    holder.pt = Point(a, scale=holder.cfg)\ndef keep(holder, a):\n    kept = Point(a)\n",
        "target.py": "from pk import shapes\ndef use(h, a):\n    shapes.keep(h, a)\n",
    }, "target.py"),
    ("same-record-in-two-modules", {
        "alpha.py": "def _normalise(rec):\n    return rec.alpha_field\ndef load_alpha(src):\n    return _normalise(src)\n",
        "beta.py": "def _normalise(rec):\n    return rec.beta_field\ndef load_beta(src):\n    return _normalise(src)\n",
        "target.py": "from alpha import load_alpha\nfrom beta import load_beta\ndef both(a, b):\n    return load_alpha(a), load_beta(b)\n",
    }, "target.py"),
    # ---- round 3
    ("keyword-named-like-positional-only-parameter", {
        "sink.py": "def emit(rec, /, *parts, **meta):\n    rec.sent = 1\n    return parts.n, meta.level\n"
                   "def relay(r, other):\n    return emit(r, other, rec=other.tag, parts=r, meta=other)\n",
        "target.py": "from sink import relay\ndef log(msg, /, **extra):\n    msg.text = 1\n    return extra.where\n"
                     "def mid(m, o):\n    return log(m, msg=o)\ndef top(a, b):\n    mid(a, b)\n    return relay(b, a)\n",
    }, "target.py"),
    ("recursion-of-every-kind-of-callable", {
        "target.py": "class Acct:\n    def __init__(self, lo, hi):\n        self.low = lo.v\n        twin = Acct(hi, lo)\n"
                     "    @staticmethod\n    def settle(debit, credit):\n        debit.balance = credit.limit\n        return Acct.settle(credit, debit)\n"
                     "    @staticmethod\n    def ping(a, b):\n        del a.pinged\n        return bounce(b, a)\n"
                     "def bounce(x, y):\n    x.bounced\n    return Acct.ping(y, y)\n"
                     "flip = lambda e, f: (e.le, flip(f, e))\n"
                     "def even(n, acc):\n    n.ev\n    return odd(acc, n)\ndef odd(m, acc2):\n    m.od = 1\n    return even(acc2, m)\n"
                     "def run(p, q):\n    Acct.settle(p, q)\n    flip(q, p)\n    k = Acct(p, q)\n    return even(p, q), bounce(q, p)\n",
    }, "target.py"),
    ("calls-in-every-position", {
        "lib.py": "def ok(h):\n    h.seen = 1\n    return h.flag\ndef val(g):\n    return g.val\n",
        "target.py": "import lib\nfrom lib import ok\n"
                     "def dispatch(msg, ctx):\n    match lib.val(msg):\n        case 1 if ok(ctx):\n            return ctx.reply\n"
                     "        case [mc_a, *mc_b] if msg.g and lib.val(ctx):\n            pass\n        case _:\n            return ctx.error\n"
                     "async def flow(p, q):\n    if ok(p):\n        pass\n    elif lib.val(q):\n        q.e\n    while ok(q):\n        break\n"
                     "    for it in lib.val(p):\n        pass\n    with ok(p) as w, lib.val(q):\n        pass\n"
                     "    [1 for e in q.seq if ok(p)]\n    {e2: lib.val(p) for e2 in q.seq2}\n    (lambda: ok(q))\n    f\"{ok(p)!r:>{q.width}}\"\n"
                     "    assert ok(p), lib.val(q)\n    r = await lib.val(p)\n    async for it2 in ok(q):\n        pass\n"
                     "    try:\n        pass\n    except ok(p):\n        lib.val(q)\n    finally:\n        ok(q)\n"
                     "    not ok(p) and lib.val(q) < 3\n    raise ok(p) from lib.val(q)\n"
                     "def gen(p):\n    y = yield ok(p)\n    yield from lib.val(p)\n    return ok(p) if p.t else lib.val(p)\n"
                     "def route(m, c):\n    return dispatch(m, c)\n",
    }, "target.py"),
    ("chain-through-three-modules", {
        "m1.py": "from m2 import step2\ndef step1(a1):\n    a1.one\n    step2(a1)\n",
        "m2.py": "import m3\ndef step2(a2):\n    a2.two = 1\n    m3.step3(a2)\n",
        "m3.py": "def step3(a3):\n    del a3.three\n",
        "target.py": "from m1 import step1\ndef top(t):\n    step1(t)\n",
    }, "target.py"),
]


# witnesses of the known findings as they appear in projects (run first as well)
KNOWN_WITNESSES = [
    ("known:compound-self-one-level-up", {
        "pk/__init__.py": "",
        "pk/shapes.py": "class Point:\n    def __init__(self, src):\n        self.x = src.value\ndef attach(holder, a):\n    holder.pt = Point(a)\n",
        "target.py": "from pk import shapes\ndef use(h, a):\n    shapes.attach(h, a)\n",
    }, "target.py"),
    ("known:call-in-subscript-index", {
        "target.py": "def helper(h):\n    h.hx = 1\n    return h.hy\ndef f(p, q):\n    del q.d[helper(p.dl)]\n",
    }, "target.py"),
    ("known:imported-class", {
        "shapes.py": "class Point:\n    def __init__(self, src):\n        self.x = src.value\n",
        "target.py": "from shapes import Point\ndef direct(h, a):\n    h.slot = Point(a)\n",
    }, "target.py"),
]


# ====================================================================== the stage


class PJ:
    __slots__ = ("label", "files", "target", "proj", "dir", "runs", "payload", "mo", "mo_rev", "skip", "curated")


def run_project_stage(res, rng, n, model=None, cli_sample=6, modes=("tree", "tree", "depth1", "wild"), keep=None, known=True):
    """Generated projects (+ the curated ones) through the real main() in-process with --follow-imports 1
    (a sample also through the CLI subprocess); every function of the target file judged by `judge`;
    the Lean project model (`Project.run`) must print the same document (Tie B)."""
    work = [(name, files, target, None) for name, files, target in CURATED]
    if known:
        work += [(name, files, target, None) for name, files, target in KNOWN_WITNESSES]
    n_cur = len(work)
    for i in range(n):
        mode = modes[i % len(modes)]
        files, target, proj = gen_project(rng, mode)
        work.append((f"{mode}{i}", files, target, proj))
    cases = []
    cli_left = cli_sample
    try:
        for idx, (label, files, target, proj) in enumerate(work):
            c = PJ()
            c.label, c.files, c.target, c.curated = label, files, target, idx < n_cur
            c.payload = c.mo = c.mo_rev = c.skip = None
            try:
                c.proj = proj or Project(files, target)
            except OutsideGrammar as e:
                res.internal_errors.append({"stage": "project", "label": label, "error": "curated project outside the oracle's grammar: " + str(e)})
                continue
            c.dir = write_project(files)
            cases.append(c)
            c.runs = [("in-process", run_inprocess(c.dir, target))]
            via_cli = cli_left > 0 and (c.curated and idx % 2 == 0 or not c.curated and rng.random() < 0.15)
            if via_cli:
                cli_left -= 1
                c.runs.append(("cli", run_cli(c.dir, target, hashseed=rng.randrange(1, 1000))))
            im = c.runs[0][1]
            if model is not None and im.get("followed") is not None:
                try:
                    c.payload = {"files": model_files(c.dir, target, im["followed"]), "facts": {}}
                except Exception as e:  # noqa  (the encoder refuses something: outside the model's fragment)
                    c.skip = "encoder:" + type(e).__name__ + ":" + str(e)[:60]
        # ---- the model: pass 1 (which facts does the results stage need), pass 2 (the run), pass 3 (ties reversed)
        if model is not None:
            live = [c for c in cases if c.payload is not None]
            for c, mo in zip(live, model.batch([("project", c.payload) for c in live])):
                c.mo = mo
                if "__error__" in mo:
                    continue
                c.payload = {**c.payload, "facts": project_facts(c.dir, c.target, mo.get("quals", []), mo.get("callTargets", []))}
            live = [c for c in live if "__error__" not in c.mo]
            for c, mo in zip(live, model.batch([("project", c.payload) for c in live])):
                c.mo = mo
            live3 = [c for c in live if "__error__" not in c.mo and c.mo.get("maxTie", 0) == 2]
            for c, mo in zip(live3, model.batch([("project", {**c.payload, "ties": "reversed"}) for c in live3])):
                c.mo_rev = mo
        for c in cases:
            proj, files, target, label = c.proj, c.files, c.target, c.label
            res.evaluations += 1
            mode = next((m for m in ("depth1", "tree", "cycle", "wild") if label.startswith(m)), "other")
            res.count(f"project:mode:{'curated' if c.curated else mode}")
            res.count(f"project:files:{len(proj.mods)}")
            n_edges = sum(1 for m in proj.mods.values() for u in m.units.values() for s in u.sites if s.unit is not None)
            n_cross = sum(1 for m in proj.mods.values() for u in m.units.values() for s in u.sites if s.unit is not None and s.unit.mod != u.mod)
            res.count("project:resolved-call-sites", n_edges)
            res.count("project:resolved-call-sites-across-files", n_cross)
            names = {}
            for m in proj.mods.values():
                for k in m.units:
                    names.setdefault(k, set()).add(m.name)
            if any(len(v) > 1 for v in names.values()):
                res.count("project:same-named-callables-in-different-files")
                for u in proj.roots():
                    reached = {}
                    for _, _, s in proj.reach(u)[0]:
                        reached.setdefault(s.unit.key, set()).add(s.unit.mod)
                    if any(len(v) > 1 for v in reached.values()):
                        res.count("project:same-named-callables-under-one-root")
                        break
            for m in proj.mods.values():
                for u in m.units.values():
                    for s in u.sites:
                        if s.unit is not None and s.unit.kind == "init" and s.self_ is not None:
                            res.count("project:instance-stored-in:" + ("name" if re.fullmatch(r"\w+", s.self_) else "attribute-or-item"))
            if n_edges:
                res.nontrivial.add(common.digest(files))
            depth = 0
            for u in proj.roots():
                edges, _ = proj.reach(u)
                depth = max([depth] + [dd + 1 for dd, _, _ in edges])
            res.count(f"project:call-depth:{min(depth, 5)}")
            # ---- correspondence with the Lean project model
            mdoc = None
            compared = False
            mo = c.mo
            if c.skip is not None:
                res.skipped_outside_fragment += 1
                res.count("project:model:skipped:" + c.skip[:50])
            elif mo is not None:
                if "__error__" not in mo and mo.get("outcome") == "crash" and str(mo.get("exc", "")).startswith("Outside:"):
                    res.skipped_outside_fragment += 1
                    res.count("project:model:skipped:" + mo["exc"])
                elif "__error__" not in mo and mo.get("maxTie", 0) >= 3:
                    res.skipped_outside_fragment += 1
                    res.count("project:model:skipped:hash-order:3-way tie of equal-named calls")
                elif c.mo_rev is not None and "__error__" not in mo and "__error__" not in c.mo_rev \
                        and (mo.get("outcome"), mo.get("doc")) != (c.mo_rev.get("outcome"), c.mo_rev.get("doc")):
                    res.skipped_outside_fragment += 1
                    res.count("project:model:skipped:hash-order:document depends on the order of a tie")
                else:
                    d = compare_model(c.runs[0][1], mo)
                    compared = True
                    res.count("project:model:compared")
                    if "__error__" not in mo:
                        res.count("project:model:resolvable-call-edges", mo.get("edges", 0))
                        res.count("project:model:resolvable-call-edges-across-files", mo.get("crossEdges", 0))
                    if d is not None:
                        res.disagreements.append({"case": {"stage": "project", "label": label, "target": target, "files": files}, "diff": d[:2000]})
                    elif mo.get("outcome") == "ok":
                        mdoc = model_doc(mo)
            for via, im in c.runs:
                case = {"stage": "project", "label": label, "via": via, "target": target, "files": files}
                res.count(f"project:{via}:outcome:{im['outcome']}")
                if im["outcome"] != "ok":
                    res.violations.append({"signature": f"project-run-{im['outcome']}:{im['exc'].split(':')[0][:40]}", "case": case, "detail": im["exc"]})
                    continue
                for key, bad, feats in judge(proj, im["doc"]):
                    fl = "clean" if not (feats - {"cycle"}) else "+".join(sorted(feats))
                    if bad is None:
                        res.count("project:verdict:holds|" + ("clean" if fl == "clean" else "defect-feature-present"))
                        continue
                    sig = signature_of(bad, feats)
                    if sig is None:
                        res.count("project:verdict:interp:python-rejected-call")
                        continue
                    if ":project-clean-fragment:" not in sig:
                        # a deviation is a KNOWN defect only if the Lean model of the pinned code predicts exactly
                        # this entry; otherwise it is new behaviour that merely occurs next to a known feature
                        if not compared:
                            # no prediction to compare with (the model skipped this project: hash-order tie, outside
                            # its fragment): the deviation cannot be attributed; counted, never reported
                            res.count("project:verdict:unattributed:model-skipped")
                            res.skipped_outside_fragment += 1
                            continue
                        if mdoc is None or mdoc.get(key) != im["doc"].get(key):
                            sig = "closure-violated:not-the-pinned-behaviour:" + sig.split(":", 1)[1]
                    res.count("project:verdict:" + sig)
                    res.violations.append({"signature": sig, "case": case, "root": key, "detail": bad[2], "what": bad[0], "kind": bad[1],
                                           "features": fl})
            if keep is not None:
                keep.append(c)
            res.sample({"label": label, "files": files, "target": target}, cap=6)
    finally:
        for c in cases:
            shutil.rmtree(c.dir, ignore_errors=True)


def replay_case(case):
    files, target = case["files"], case["target"]
    proj = Project(files, target)
    d = write_project(files)
    try:
        for rel in sorted(files):
            print(f"# ---- {rel}\n{files[rel]}")
        im = run_cli(d, target)
        print(json.dumps(im, indent=1))
        bad = 0
        if im["outcome"] == "ok":
            for v in judge(proj, im["doc"]):
                print(v)
                bad += v[1] is not None
        else:
            bad = 1
        return 1 if bad else 0
    finally:
        shutil.rmtree(d, ignore_errors=True)


if __name__ == "__main__":      # development aid: python py/props/c03proj.py [seed] [n]
    import random
    import time
    import warnings

    warnings.simplefilter("ignore")
    seed = int(sys.argv[1]) if len(sys.argv) > 1 else 0
    n = int(sys.argv[2]) if len(sys.argv) > 2 else 30
    modes = tuple(sys.argv[3].split(",")) if len(sys.argv) > 3 else ("tree", "tree", "depth1")
    res = common.Result("DEV")
    t0 = time.time()
    keep = []
    run_project_stage(res, random.Random(seed), n, common.Model(), modes=modes, keep=keep)
    print(json.dumps(res.distribution, indent=1, sort_keys=True))
    print("evaluations", res.evaluations, "nontrivial", len(res.nontrivial), "violations", len(res.violations),
          "internal", len(res.internal_errors), "wall", round(time.time() - t0, 1))
    seen = set()
    for d in res.disagreements[:3]:
        print("=" * 100)
        print("DISAGREEMENT", d["case"]["label"], d["diff"])
        for rel, src in d["case"]["files"].items():
            print(f"# ---- {rel}\n{src}")
    for v in res.violations:
        if v["signature"] in seen:
            continue
        seen.add(v["signature"])
        print("=" * 100)
        print(v["signature"], v.get("root"), v.get("what"), v.get("kind"), v.get("detail"), v.get("features"))
        for rel, src in v["case"]["files"].items():
            print(f"# ---- {rel}\n{src}")
    for e in res.internal_errors[:5]:
        print("INTERNAL", e)

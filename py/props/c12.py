"""C12 — only modules allowed by follow level and exclusions are analysed, each once.

Per case a project tree is generated in a temp dir outside /verif and /repo: local modules and a
package, "pip" modules in a fake `site-packages` directory put on sys.path / PYTHONPATH, real tiny
stdlib modules, rattr itself, unlocatable modules; import graphs with cycles, diamonds, several
import forms; x follow level 0..3 x --exclude-import pattern sets.

How the configuration reaches rattr is part of the case (`channel`): the follow level through every
way a user can set it (-f N, --follow-imports N, --follow-imports=N, -fN, repeated flags, [tool.rattr]
follow-imports = N in ./pyproject.toml, in a parent directory's pyproject.toml, in a -c / --config
file, TOML overridden by the command line, nothing at all), the exclusion patterns through -F /
--exclude-import / TOML exclude-imports / both, the TOML text in 9 spellings — run in-process through
the REAL `parse_arguments` on real files, and (channel matrix, sample) through the real CLI.
How a file gets a second module name / a search dir a second spelling is part of the case too
(`extra_path` spellings, `links`): a sub-directory that is also a search dir (spelled really, through
a symlink, `./x`, `x/../x`, `x/`), a symlinked directory or file inside a search dir, site-packages
reached through a symlink. Analyses are counted per REAL file (os.path.realpath).

How an edge is WRITTEN is part of the case as well: absolute statements in 5 forms and RELATIVE ones of level
1..3 (`from .util import f`, `from .. import util`, `from ... import f_<package>`, `from ..q2.util import f`)
inside modules and inside `__init__.py` files of regular packages nested 1..4 deep (local and in site-packages),
with a same-named module `util.py` in every package of the chain and at the top level, so that a level
mis-counted by one or two silently reaches a different, otherwise unreachable module. Which module a
relative statement reaches is never computed by the harness: it is `importlib.util.resolve_name` on the
package of the importing file. The importing file is a followed import, or the target itself
(`python -m rattr np/q1/q2/__init__.py`).

WHERE an import statement stands is part of the case too: at the top of the file or in any module-level block
position — the body / elif / else of an `if`, body / handlers / else / finally of a `try`, a `with`, body / else of
`for` and `while`, nested up to four deep — in the target and in followed modules (block corpus: every position x
target / followed import, in-process and through the CLI; half of the random projects). Python executes an import
wherever it stands at module level, so every one of them is an edge for the oracle; the order in which
RootContextBuilder registers them (try / try-except*: handlers last; match: the case bodies in order — descended
since /repo 6e8e4cc) is the Lean model `Blocks.regL`. A class body — the builder's visit_ClassDef does not descend
into it — is generated as well (known finding `:class-body`).
WHICH pyproject.toml applies is part of the case: nested project roots (`nested:*` channels: an inner
pyproject.toml with [tool.rattr] at the working directory, its parent or grand-parent, below a `.git` / `.hg` /
`.svn` / `.git` file / another project's pyproject.toml with a different level and the pattern '.*'; and the
`nested-none:*` layouts whose nearest root has no [tool.rattr] table) — the nearest root wins (Lean
`Cli.findPyproject`, theorems `C12_nearest_root_wins`, `C12_outer_roots_irrelevant`).

Implementation side: the real `parse_and_analyse_file()` (+ `generate_results_from_ir`) in-process,
with `FileAnalyser.analyse` wrapped to count analyses; a sample is re-run through the real CLI.
Model side: Lean `Imports.bfs` on the module graph whose per-module facts (resolved name, origin,
blacklist / pip / stdlib verdicts, readability) are computed by rattr's REAL locator functions.
Edge stage: Lean `Edges.qualified` / `Edges.moduleName` (derive_absolute_module_name with its __init__.py
adjustment + the right-to-left prefix search, on the statements as data and the module names that exist BY
CONSTRUCTION) vs the Import symbols of the root context rattr really compiled for every analysed file, and vs
the edges of the graph the BFS model ran on; Lean `Edges.pyQualified` / `pyTarget` vs importlib.
Spec side: Lean `Spec.reach` cross-checked with `closure()` below on the same facts (mismatch =
internal error). Property oracle: `closure()` on facts the harness knows INDEPENDENTLY of rattr (where
it put each file, `sys.stdlib_module_names`, `re.fullmatch` on names, the import statements it wrote)
vs the implementation's analysed set, analysis counts and results.
"""
from __future__ import annotations

import ast
import json
import os
import random
import re
import shutil
import subprocess
import sys
import tempfile
from concurrent.futures import ThreadPoolExecutor
from pathlib import Path
from unittest import mock

import common
import impl

PID = "C12"
TABLES = ["C12", "C20"]

STDLIB_LEAF = ["keyword", "colorsys", "token"]      # source files without imports (verified per run)
STDLIB_OPAQUE = ["sys", "os", "math"]               # origin 'built-in' / 'frozen' / .so

# The wider universe of stdlib names: `__future__` (isort's FUTURE section), frozen / built-in /
# extension modules, source modules and packages, dotted names. name -> a member for `from X import m`.
# The CLASS of each is established per run by importlib (never by rattr): STDLIB_CLASS.
FUTURE_FEATURES = ["annotations", "division", "print_function", "generator_stop", "absolute_import",
                   "unicode_literals", "with_statement", "nested_scopes", "generators", "barry_as_FLUFL"]
STDLIB_WIDE = {"__future__": "annotations",
               "os": "sep", "zipimport": "zipimporter", "posixpath": "join", "codecs": "lookup", "stat": "S_ISDIR",
               "sys": "argv", "builtins": None, "_thread": "allocate_lock", "_io": "StringIO", "time": "sleep",
               "itertools": "chain",
               "math": "pi", "array": "array", "_json": "scanstring", "select": "select", "zlib": "crc32",
               "keyword": "iskeyword", "colorsys": "rgb_to_hls", "token": "tok_name", "struct": "pack",
               "json": "dumps", "email": "message_from_string", "collections": "OrderedDict", "xml": None,
               "importlib": "import_module",
               "os.path": "join", "collections.abc": "Mapping", "importlib.metadata": "version",
               "json.decoder": "JSONDecoder", "xml.etree.ElementTree": "parse", "encodings.utf_8": "decode",
               "concurrent.futures": "Future"}
# (not `this` / `antigravity`: rattr's find_module_name_and_spec("this.s") calls importlib's find_spec on
# the dotted name, which IMPORTS the parent module — the Zen is printed, a browser opened)
# names isort places in STDLIB although this interpreter has no such module (removed modules)
STDLIB_GONE = ["distutils", "imp", "asynchat"]


def _stdlib_class(name):
    """(class, leafy): class by construction of the running interpreter (importlib.util.find_spec):
    __future__ | frozen | built-in | extension | source-module | source-package, + ':dotted';
    leafy = following it cannot lead anywhere (no source to read, or a source without imports)."""
    import importlib.util
    try:
        spec = importlib.util.find_spec(name)
    except Exception:
        spec = None
    if spec is None:
        return None, False
    o = spec.origin
    if name == "__future__":
        cls = "__future__"
    elif o in ("frozen", "built-in"):
        cls = o
    elif o and o.endswith(".py"):
        cls = "source-package" if spec.submodule_search_locations is not None else "source-module"
    elif o:
        cls = "extension"
    else:
        return None, False
    leafy = True
    if o and o.endswith(".py"):
        try:
            leafy = not any(isinstance(x, (ast.Import, ast.ImportFrom)) for x in ast.walk(ast.parse(Path(o).read_text())))
        except Exception:
            leafy = False
    return cls + (":dotted" if "." in name else ""), leafy


STDLIB_CLASS = {n: _stdlib_class(n) for n in STDLIB_WIDE}
STDLIB_CLASS = {n: v for n, v in STDLIB_CLASS.items() if v[0] is not None and n.split(".")[0] in sys.stdlib_module_names}
# a member that is itself a builtin name would not become an Import symbol at all (root context: the
# name is already declared) — `builtins` is only imported as a module
assert not any(m in dir(__import__("builtins")) for m in STDLIB_WIDE.values() if m)
STDLIB_GONE_HERE = [n for n in STDLIB_GONE if _stdlib_class(n)[0] is None and n not in sys.stdlib_module_names]
# how a generated file can get a SECOND module name (`names[n]["via"]`; one mechanism per project)
ALIAS_VIAS = ["subdir-on-path:<spelling>",          # a sub-directory of a search dir is a search dir too
              "symlink-inside-search-dir:dir",      # a symlinked directory below a search dir
              "symlink-inside-search-dir:file"]     # a symlinked .py file below a search dir
# how a search-path entry can be spelled (all denote the same directory)
SPELLINGS = ["real", "real", "symlink", "symlink", "dot", "dotdot", "slash"]
RATTR_FORMS = [("rattr", None), ("rattr.config", "Config"), ("rattr.analyser.util", "read")]
MISSING = "zz_missing0"
REL_MAX_LEVEL = 3                   # relative imports of level 1..3


# ------------------------------------------------------------------ the closure (spec, in Python)

def closure(imports_of, target_imps, permitted):
    """Least set containing the permitted modules the target imports, closed under permitted
    imports of its members. imports_of: name -> [name|None]; permitted: name -> bool."""
    reach, work = set(), list(target_imps)
    while work:
        n = work.pop()
        if n is None or n in reach or not permitted(n):
            continue
        reach.add(n)
        work.extend(imports_of.get(n, []))
    return reach


# ------------------------------------------------------------------ module-level block positions
#
# An import statement need not stand at the top of a file: Python executes it wherever it stands at module
# level. A file's statements are a list of ITEMS: an int (index of an import statement of the file) or a
# block node {"k": kind, "parts": [[label, [items]], ...]}:
#   if      body, elif*, else?          for / while   body, else?          with   body
#   try     body, except*, else?, finally?   (an except or a finally; else only with an except)
#   trystar body, except+, else?, finally?   (`except*`)      match  case+      class  body
# DESCENDED kinds are those RootContextBuilder has a descending visit_ method for (Tie A `tieA_block_visitors`;
# `match` and `try/except*` since /repo 6e8e4cc); the harness' mirror of the ORDER in which rattr registers
# (try and try-star: body, else, finally, handlers; match: the case bodies in order) is cross-checked with the
# Lean model `Blocks.regL` on every case; the ORACLE's edges are all written ones.
BLOCK_PARTS = {"if": ("body", "elif*", "else?"), "for": ("body", "else?"), "while": ("body", "else?"),
               "with": ("body",), "try": ("body", "except*", "else?", "finally?"),
               "trystar": ("body", "except+", "else?", "finally?"), "match": ("case+",), "class": ("body",)}
DESCENDED_KINDS = ("if", "for", "while", "with", "try", "trystar", "match")
OPAQUE_KINDS = {"class": "class-body"}          # statement classes without a DESCENDING visit_ method
# descended since 6e8e4cc (known findings :match / :try-star, status fixed): by construction of the position
# the oracle still NAMES these classes when a module reachable only through an import inside one of them is
# not analysed, so that a regression is reported under the signature of the fixed finding
FIXED_KINDS = {"trystar": "try-star", "match": "match"}
CONDS = ["__debug__", "len('ab') == 2", "not __debug__", "0", "1"]


def render_tree(items, stmts, ind=0, ctr=None):
    """Source lines of a list of items."""
    ctr = ctr if ctr is not None else [0]
    pad = "    " * ind
    out = []

    def block(head, sub):
        out.append(pad + head)
        out.extend(render_tree(sub, stmts, ind + 1, ctr) or [pad + "    pass"])

    for it in items:
        if isinstance(it, int):
            out.append(pad + stmts[it])
            continue
        ctr[0] += 1
        k, n = it["k"], ctr[0]
        if k == "match":
            out.append(pad + f"match len('ab') + {n}:")
            for i, (label, sub) in enumerate(it["parts"]):
                last = i == len(it["parts"]) - 1
                out.append(pad + "    " + ("case _:" if last else f"case {i}:"))
                out.extend(render_tree(sub, stmts, ind + 2, ctr) or [pad + "        pass"])
            continue
        for i, (label, sub) in enumerate(it["parts"]):
            cond = CONDS[(n + i) % len(CONDS)]
            exc = ["except ImportError:", "except (KeyError, OSError) as _e:", "except Exception:"][i % 3]
            head = {("if", "body"): f"if {cond}:", ("if", "elif"): f"elif {cond}:", ("if", "else"): "else:",
                    ("for", "body"): f"for _i{n} in range(2):", ("for", "else"): "else:",
                    ("while", "body"): "while 0:", ("while", "else"): "else:",
                    ("with", "body"): f"with open(__file__) as _fh{n}:",
                    ("try", "body"): "try:", ("try", "except"): exc, ("try", "else"): "else:",
                    ("try", "finally"): "finally:",
                    ("trystar", "body"): "try:", ("trystar", "except"): exc.replace("except", "except*"),
                    ("trystar", "else"): "else:", ("trystar", "finally"): "finally:",
                    ("class", "body"): f"class _K{n}:"}[(k, label)]
            block(head, sub)
    return out


def written_order(items):
    """Every statement of the tree, in source order."""
    return [j for it in items for j in ([it] if isinstance(it, int) else
                                        [x for _, sub in it["parts"] for x in written_order(sub)])]


def registered_order(items):
    """The statements RootContextBuilder.register_stmts reaches, in ITS order (harness mirror of the Lean
    model `Blocks.regL`, cross-checked per case): if / for / while / with / match: the parts in order; try and
    try-star: body, else, finally, then the handlers; a statement class without a descending visit_ method
    (a class body): nothing."""
    out = []
    for it in items:
        if isinstance(it, int):
            out.append(it)
        elif it["k"] in ("try", "trystar"):
            by = lambda lab: [x for l, sub in it["parts"] if l == lab for x in registered_order(sub)]
            out += by("body") + by("else") + by("finally") + by("except")
        elif it["k"] in DESCENDED_KINDS:
            out += [x for _, sub in it["parts"] for x in registered_order(sub)]
    return out


def positions(items, prefix=""):
    """statement index -> its block position, e.g. 'top', 'if.else', 'try.except/if.elif'."""
    out = {}
    for it in items:
        if isinstance(it, int):
            out[it] = prefix or "top"
        else:
            for label, sub in it["parts"]:
                out.update(positions(sub, (prefix + "/" if prefix else "") + f"{it['k']}.{label}"))
    return out


def opaque_of(pos, table=None):
    """The statement classes on the path of a position that have no descending visit_ method (by name);
    `table`: another kind -> label table (FIXED_KINDS)."""
    table = OPAQUE_KINDS if table is None else table
    return sorted({table[p.split(".")[0]] for p in pos.split("/") if p.split(".")[0] in table})


def lean_tree(items, leaves):
    """The tree as the Lean model takes it (`Blocks.Blk`): a number = one written import symbol; `if` with
    elif parts = nested ifs (as in `ast`); for / while = loop; the handlers of a try / try-star concatenated;
    the case bodies of a match concatenated."""
    out = []
    for it in items:
        if isinstance(it, int):
            out += leaves(it)
            continue
        k = it["k"]
        sub = lambda lab: [x for l, s_ in it["parts"] if l == lab for x in lean_tree(s_, leaves)]
        if k == "if":
            rest = [(l, s_) for l, s_ in it["parts"][1:]]

            def chain(rest):
                if not rest:
                    return []
                (l, s_), tail = rest[0], rest[1:]
                if l == "else":
                    return lean_tree(s_, leaves)
                return [{"k": "if", "a": lean_tree(s_, leaves), "b": chain(tail)}]
            out.append({"k": "if", "a": sub("body"), "b": chain(rest)})
        elif k in ("for", "while"):
            out.append({"k": "loop", "a": sub("body"), "b": sub("else")})
        elif k == "with":
            out.append({"k": "with", "a": sub("body")})
        elif k in ("try", "trystar"):
            out.append({"k": "try", "a": sub("body"), "b": sub("except"), "c": sub("else"), "d": sub("finally")})
        elif k == "match":
            out.append({"k": "match", "a": sub("case")})
        else:
            out.append({"k": "opaque", "a": [x for _, s_ in it["parts"] for x in lean_tree(s_, leaves)]})
    return out


def random_parts(rng, kind, chunk):
    """Distribute the statements `chunk` (in order) over the parts of one block of `kind`."""
    if kind == "if":
        labels = ["body"] + ["elif"] * rng.choice([0, 0, 1, 2]) + (["else"] if rng.random() < 0.7 else [])
    elif kind in ("for", "while"):
        labels = ["body"] + (["else"] if rng.random() < 0.6 else [])
    elif kind in ("with", "class"):
        labels = ["body"]
    elif kind == "match":
        labels = ["case"] * rng.randint(1, 3)
    else:
        ne = rng.choice([1, 1, 2]) if kind == "trystar" else rng.choice([0, 1, 1, 2])
        labels = ["body"] + ["except"] * ne + (["else"] if ne and rng.random() < 0.5 else [])
        if ne == 0 or rng.random() < 0.4:
            labels.append("finally")
    # non-decreasing part index per statement; the rarer parts (not the first) are preferred
    idx = sorted(rng.choice(list(range(len(labels))) + list(range(1, len(labels)))) for _ in chunk)
    return [[lab, [c for c, j in zip(chunk, idx) if j == i]] for i, lab in enumerate(labels)]


def random_tree(rng, first, n, opaque=None, depth=0):
    """A random block tree over the statements first..n-1 (in order); `opaque`: a statement class without
    a visit_ method that may be used as well."""
    def build(idxs, depth):
        out, i = [], 0
        while i < len(idxs):
            if rng.random() < (0.3 if depth == 0 else 0.55) or depth >= 3:
                out.append(idxs[i])
                i += 1
                continue
            k = rng.randint(1, min(3, len(idxs) - i))
            chunk, i = idxs[i:i + k], i + k
            kinds = list(DESCENDED_KINDS) + ["if", "try"] + ([opaque] * 3 if opaque else [])
            kind = rng.choice(kinds)
            parts = random_parts(rng, kind, chunk)
            out.append({"k": kind, "parts": [[lab, build(sub, depth + 1)] for lab, sub in parts]})
        return out
    return list(range(first)) + build(list(range(first, n)), 0)


# ------------------------------------------------------------------ generation

def tag_of(name):
    return name.replace(".", "_")


class Gen:
    """Builds one project: files, import statements, and what the harness knows about them."""

    def __init__(self, rng, spec=None):
        self.rng = rng
        self.files = {}      # (root, relpath) -> {"stmts": [..], "symbols": [..], "calls": [..], "tag":..}
        self.names = {}      # intended module name -> {"kind", "file": (root, relpath) | None}
        self.extra_path = []  # dirs appended to the module search path: "pk" | {"dir": "pk", "spell": how}
        self.links = []      # symlinks: {"at": <root-relative path>, "to": <link text>}
        self.no_rel = set()  # files in which no relative import may be written (reachable under a
        #                      second PACKAGE name: rattr derives the package from the spelled path)
        self.sp_spell = "real"

    def add_link(self, at, to):
        if not any(l["at"] == at for l in self.links):
            self.links.append({"at": at, "to": to})

    def add_file(self, root, relpath, name, kind):
        key = (root, relpath)
        if key not in self.files:
            self.files[key] = {"stmts": [], "symbols": [], "calls": [], "ids": {"f_" + tag_of(name)}, "tag": tag_of(name),
                               "nsyms": [], "tree": None}
        self.names[name] = {"kind": kind, "file": key}

    def add_name(self, name, kind, file=None, via=None):
        """A further name: of a module without generated file (stdlib, rattr, missing) or — `via` — a
        SECOND name of a generated file (how: see ALIAS_VIAS)."""
        self.names[name] = {"kind": kind, "file": file}
        if via:
            self.names[name]["via"] = via

    def names_of(self, key):
        return {n for n, i in self.names.items() if i["file"] == key}

    def primary(self, key):
        """The name a file was created for (first registered)."""
        return next(n for n, i in self.names.items() if i["file"] == key)

    def package_of(self, key):
        """Dotted package a file lives in (for relative imports), or None."""
        root, rel = key
        parts = rel.split("/")
        return ".".join(parts[:-1]) if len(parts) > 1 else None

    def regular_chain(self, key):
        """Every directory between the search root and the file is a regular package (`__init__.py`)."""
        root, rel = key
        parts = rel.split("/")[:-1]
        return bool(parts) and all((root, "/".join(parts[:i]) + "/__init__.py") in self.files
                                   for i in range(1, len(parts) + 1))

    def rel_candidates(self, src_key, dst):
        """Every relative statement (level 1..REL_MAX_LEVEL, module part, form) written in file `src_key`
        that names the module `dst`: through the importing file's own package (level 1), its parent (2),
        its grand-parent (3); the module part may be empty (`from .. import leaf`), one name or dotted
        (`from ...q1.util import f`: down again into another branch)."""
        info = self.names[dst]
        pkg = self.package_of(src_key)
        if pkg is None or info["file"] is None or info["kind"] not in ("local", "pip") or info.get("via") \
                or info["file"][0] != src_key[0] or src_key in self.no_rel or not self.regular_chain(src_key):
            return []
        parts, out = pkg.split("."), []
        for lvl in range(1, min(REL_MAX_LEVEL, len(parts)) + 1):
            anc = ".".join(parts[: len(parts) - (lvl - 1)])
            if dst == anc:
                out.append((lvl, None, "rel_from_anc"))          # from .. import f_<anc>
            elif dst.startswith(anc + "."):
                rest = dst[len(anc) + 1:]
                out.append((lvl, rest, "rel_from_mod"))          # from ..rest import f
                out.append((lvl, rest.rpartition(".")[0] or None, "rel_from_pkg"))   # from ..<rest's parent> import leaf
        return out

    def longest_name(self, qualified):
        """The longest prefix of a dotted name that is a module of this project (by construction)."""
        parts = qualified.split(".")
        for k in range(len(parts), 0, -1):
            n = ".".join(parts[:k])
            if n in self.names and self.names[n]["kind"] != "missing":
                return n
        return None

    def add_import(self, src_key, dst, form=None, member=None, rel=None):
        """Write an import of module `dst` into file `src_key`; record the Import symbol rattr is
        expected to create: qualified name, declared module, intended target module, and the statement
        as data (`stmt`: level, module part, imported name). `form="rel"`: a relative statement if one
        can name `dst` (any level); `rel=(level, module part | None, form)`: exactly that one.
        The module a RELATIVE statement reaches is never computed here: it is what
        `importlib.util.resolve_name` says for the importing file's package."""
        f = self.files[src_key]
        info = self.names[dst]
        kind = info["kind"]
        has_fn = info["file"] is not None and kind in ("local", "pip")
        fn = "f_" + self.files[info["file"]]["tag"] if has_fn else member
        pkg = self.package_of(src_key)
        parent, _, leaf = dst.rpartition(".")
        forms = ["import", "import_as"]
        if fn:
            forms += ["from", "from", "from_as"]
        multi = None
        if isinstance(member, (tuple, list)):
            # `from __future__ import a, b`: one statement, one Import symbol per feature
            multi, fn, form, forms = list(member), member[0], "from", ["from"]
        if parent and kind in ("local", "pip", "stdlib"):
            forms += ["from_pkg"]
        cands = self.rel_candidates(src_key, dst) if multi is None else []
        if rel is not None:
            assert tuple(rel) in cands, (src_key, dst, rel, cands)
            form = rel[2]
        elif cands and (form == "rel" or form in ("rel_from_mod", "rel_from_pkg", "rel_from_anc")
                        or (form is None and self.rng.random() < 0.45)):
            # deeper levels are preferred: they are the rarer ones
            pool = [c for c in cands if form in (None, "rel") or c[2] == form] or cands
            rel = self.rng.choice(pool + [c for c in pool if c[0] >= 2])
            form = rel[2]
        if form is None or form not in forms + (["rel_from_mod", "rel_from_pkg", "rel_from_anc"] if rel else []):
            form = self.rng.choice(forms)
        # alias identifiers are unique across the whole project: equal aliases in two files that
        # import each other make resolve_import recurse for ever (C06 alias / re-export cycle, a C07
        # matter), which is outside C12's fragment
        self.counter = getattr(self, "counter", 0) + 1
        k = self.counter

        def fresh(i):
            return i if i not in f["ids"] else None

        call = None
        intended = None if kind == "missing" else dst
        if form == "import":
            ident = fresh(dst)
            if ident is None:
                form = "import_as"
            else:
                stmt, qual, decl = f"import {dst}", dst, dst
                call = f"{dst}.{fn}(x)" if has_fn else None
                sdata = {"level": 0, "module": dst, "name": None}
        if form == "import_as":
            ident = f"al{k}"
            stmt, qual, decl = f"import {dst} as {ident}", dst, dst
            call = f"{ident}.{fn}(x)" if has_fn else None
            sdata = {"level": 0, "module": dst, "name": None}
        if form == "from":
            ident = fresh(fn)
            if ident is None:
                form = "from_as"
            else:
                stmt, qual, decl = f"from {dst} import {fn}", f"{dst}.{fn}", dst
                call = f"{fn}(x)" if has_fn else None
                sdata = {"level": 0, "module": dst, "name": fn}
        if form == "from_as":
            ident = f"g{k}"
            stmt, qual, decl = f"from {dst} import {fn} as {ident}", f"{dst}.{fn}", dst
            call = f"{ident}(x)" if has_fn else None
            sdata = {"level": 0, "module": dst, "name": fn}
        if form == "from_pkg":
            ident = fresh(leaf)
            if ident is None:
                ident = f"s{k}"
                stmt = f"from {parent} import {leaf} as {ident}"
            else:
                stmt = f"from {parent} import {leaf}"
            qual, decl = dst, parent
            call = f"{ident}.{fn}(x)" if has_fn else None
            sdata = {"level": 0, "module": parent, "name": leaf}
        if form in ("rel_from_mod", "rel_from_pkg", "rel_from_anc"):
            import importlib.util
            lvl, modpart, _ = rel
            spelled = "." * lvl + (modpart or "")
            # GROUND TRUTH: CPython's own rule, applied to the package of the importing file
            resolved = importlib.util.resolve_name(spelled, pkg)
            name = leaf if form == "rel_from_pkg" else fn
            ident = fresh(name)
            if ident is None:
                ident = f"{'s' if form == 'rel_from_pkg' else 'g'}{k}"
                stmt = f"from {spelled} import {name} as {ident}"
            else:
                stmt = f"from {spelled} import {name}"
            qual, decl = f"{resolved}.{name}", resolved
            intended = self.longest_name(qual)
            assert intended == dst, ("generator: the statement does not name the module it was written for",
                                     src_key, stmt, resolved, intended, dst)
            call = (f"{ident}.{fn}(x)" if form == "rel_from_pkg" else f"{ident}(x)") if has_fn else None
            sdata = {"level": lvl, "module": modpart, "name": name}
        f["ids"].add(ident)
        syms = [{"qualified": qual, "declared": decl, "intended": intended, "form": form, "stmt": sdata}]
        if multi and form == "from":
            stmt = f"from {dst} import " + ", ".join(multi)
            syms = [{"qualified": f"{dst}.{m}", "declared": dst, "intended": dst, "form": "from_multi",
                     "stmt": {"level": 0, "module": dst, "name": m}} for m in multi]
            f["ids"].update(multi)
        if dst == "__future__" and stmt.startswith("from "):
            # future statements stand before everything else in the file
            a, b = f.get("nf_stmt", 0), f.get("nf_sym", 0)
            f["stmts"].insert(a, stmt)
            f["nsyms"].insert(a, len(syms))
            f["symbols"][b:b] = syms
            f["nf_stmt"], f["nf_sym"] = a + 1, b + len(syms)
            assert f["tree"] is None
        else:
            f["stmts"].append(stmt)
            f["nsyms"].append(len(syms))
            f["symbols"].extend(syms)
        if call and self.rng.random() < 0.85:
            f["calls"].append(call)

    def nested_packages(self, root, top, depth, kind, modules=("util",), always=True):
        """A chain of regular packages `top`, `top.q1`, ... (`depth` packages), each with the SAME-NAMED
        modules (`util.py` in every one of them — the usual util.py / helpers.py per package) and the same
        module name once more at the top level of the search dir: a relative import whose level is
        mis-counted by one or two silently reaches a different module of the same name."""
        chain = [top] + [f"q{i}" for i in range(1, depth)]
        made = []
        for i in range(1, depth + 1):
            d = "/".join(chain[:i])
            n = ".".join(chain[:i])
            self.add_file(root, f"{d}/__init__.py", n, kind)
            made.append(n)
            for m in modules:
                if always or self.rng.random() < 0.8:
                    self.add_file(root, f"{d}/{m}.py", f"{n}.{m}", kind)
                    made.append(f"{n}.{m}")
        for m in modules:
            if (always or self.rng.random() < 0.6) and m not in self.names:
                self.add_file(root, f"{m}.py", m, kind)
                made.append(m)
        return made

    # -- one real file under two module names / one search dir under two spellings (ALIAS_VIAS)
    def alias_subdir_on_path(self, spell="real", only=None):
        """proj/pk is ALSO a search dir (spelled `spell`): pk/s0.py is `pk.s0` and `s0`."""
        self.extra_path.append({"dir": "pk", "spell": spell})
        if spell == "symlink":
            self.add_link("via", ".")
        for (root, rel) in list(self.files):
            if root == "proj" and rel.startswith("pk/") and rel != "pk/__init__.py":
                if only is None or rel[3:-3] in only:
                    self.add_name(rel[3:-3], "local", (root, rel), via="subdir-on-path:" + spell)

    def alias_symlinked_dir(self):
        """proj/lnk -> pk (a symlinked directory INSIDE a search dir): pk/s0.py is `pk.s0` and `lnk.s0`."""
        self.add_link("proj/lnk", "pk")
        for (root, rel) in list(self.files):
            if root == "proj" and rel.startswith("pk/"):
                self.no_rel.add((root, rel))
                name = "lnk" if rel == "pk/__init__.py" else "lnk." + rel[3:-3]
                self.add_name(name, "local", (root, rel), via="symlink-inside-search-dir:dir")

    def alias_symlinked_file(self, i=0):
        """proj/al<i>.py -> lm<i>.py (a symlinked file inside a search dir)."""
        self.add_link(f"proj/al{i}.py", f"lm{i}.py")
        self.add_name(f"al{i}", "local", ("proj", f"lm{i}.py"), via="symlink-inside-search-dir:file")

    def sp_through_symlink(self):
        """site-packages is on the search path only as `vendor` -> sp/site-packages: the spelled
        path does not contain 'site-packages', the real one does."""
        self.sp_spell = "symlink"
        self.add_link("vendor", "sp/site-packages")

    def source(self, key):
        f = self.files[key]
        body = "".join(f"    {c}\n" for c in f["calls"])
        head = "\n".join(f["stmts"]) if f["tree"] is None else "\n".join(render_tree(f["tree"], f["stmts"]))
        return head + f"\n\ndef f_{f['tag']}(x):\n{body}    return x.attr_{f['tag']}\n"

    def place(self, key, tree):
        """Put the import statements of file `key` into module-level block positions: `tree` is a list of
        items over the statement indices (see render_tree); every statement exactly once, in source order;
        `from __future__` statements stay first at the top level."""
        f = self.files[key]
        assert written_order(tree) == list(range(len(f["stmts"]))), (tree, f["stmts"])
        nf = f.get("nf_stmt", 0)
        assert tree[:nf] == list(range(nf)), "future statements stand first, at the top level"
        ast.parse("\n".join(render_tree(tree, f["stmts"])))
        f["tree"] = tree

    def views(self, key):
        """(symbols rattr is expected to create, in ITS order; every import symbol WRITTEN in the file, in
        source order, with its block position; the block tree over the written symbols) of one file."""
        f = self.files[key]
        if f["tree"] is None:
            return f["symbols"], None, None
        offs, o = [], 0
        for n in f["nsyms"]:
            offs.append(o)
            o += n
        pos = positions(f["tree"])
        sl = lambda i: list(range(offs[i], offs[i] + f["nsyms"][i]))
        reg = [j for i in registered_order(f["tree"]) for j in sl(i)]
        written = [dict(f["symbols"][j], pos=pos[i]) for i in range(len(f["stmts"])) for j in sl(i)]
        return [f["symbols"][j] for j in reg], written, {"tree": lean_tree(f["tree"], sl), "reg": reg}

    def case(self, level, patterns, target_file=None):
        return {
            **({"target_file": target_file} if target_file else {}),
            "level": level,
            "patterns": patterns,
            "extra_path": self.extra_path,
            "links": self.links,
            "sp_spell": self.sp_spell,
            "files": {f"{root}/{rel}": self.source((root, rel)) for (root, rel) in self.files},
            "symbols": {f"{root}/{rel}": self.views((root, rel))[0] for (root, rel) in self.files},
            # only for files whose imports stand in block positions: every import symbol written (the
            # oracle's edges) and the block tree (the model's input)
            "written": {f"{root}/{rel}": self.views((root, rel))[1] for (root, rel), f in self.files.items()
                        if f["tree"] is not None},
            "blocks": {f"{root}/{rel}": self.views((root, rel))[2] for (root, rel), f in self.files.items()
                       if f["tree"] is not None},
            "names": {n: dict({"kind": i["kind"], "file": (f"{i['file'][0]}/{i['file'][1]}" if i["file"] else None)},
                              **({"via": i["via"]} if i.get("via") else {}))
                      for n, i in self.names.items()},
        }


def pattern_pool(g: Gen):
    pool = [".*", "rattr", "nomatch_.*"]
    for n, i in g.names.items():
        if i["kind"] in ("local", "pip", "stdlib", "opaque"):
            pool.append(re.escape(n))
            if "." in n:
                pool.append(re.escape(n.split(".")[0]) + r"\..*")
            else:
                pool.append(n[:2] + ".*")
    pool.append("(lm0|pq1|keyword)")
    return sorted(set(pool))


def random_case(rng):
    g = Gen(rng)
    g.add_file("proj", "target.py", "target", "local")
    for i in range(rng.randint(1, 3)):
        g.add_file("proj", f"lm{i}.py", f"lm{i}", "local")
    two_names = False
    if rng.random() < 0.55:
        g.add_file("proj", "pk/__init__.py", "pk", "local")
        for s in ("s0", "s1")[: rng.randint(1, 2)]:
            g.add_file("proj", f"pk/{s}.py", f"pk.{s}", "local")
        r = rng.random()
        if r < 0.3:
            # one alias mechanism per project (the signature of a double analysis names it)
            two_names = "subdir-on-path"
            g.alias_subdir_on_path(rng.choice(SPELLINGS))
        elif r < 0.42:
            two_names = "symlinked-dir"
            g.alias_symlinked_dir()
    if not two_names and rng.random() < 0.1:
        two_names = "symlinked-file"
        g.alias_symlinked_file(0)
    if rng.random() < 0.6:
        g.add_file("sp", "pq0/__init__.py", "pq0", "pip")
        if rng.random() < 0.5:
            g.add_file("sp", "pq0/u0.py", "pq0.u0", "pip")
    if rng.random() < 0.5:
        g.add_file("sp", "pq1.py", "pq1", "pip")
    if "pq0" in g.names and rng.random() < 0.4:
        # nested regular package inside a pip package
        g.add_file("sp", "pq0/sub/__init__.py", "pq0.sub", "pip")
        g.add_file("sp", "pq0/sub/deep.py", "pq0.sub.deep", "pip")
    if rng.random() < 0.45:
        # PEP 420 namespace package in site-packages: NO nsq/__init__.py (google.*, zope.* style);
        # nsq/inner is a regular package or itself a namespace portion
        if rng.random() < 0.5:
            g.add_file("sp", "nsq/inner/__init__.py", "nsq.inner", "pip")
        g.add_file("sp", "nsq/inner/mod.py", "nsq.inner.mod", "pip")
        if rng.random() < 0.4:
            g.add_file("sp", "nsq/flat.py", "nsq.flat", "pip")
    if any(i["kind"] == "pip" for i in g.names.values()) and rng.random() < 0.2:
        g.sp_through_symlink()
    if rng.random() < 0.3:
        # local nested package whose top-level name is shared with nothing else
        g.add_file("proj", "lp/__init__.py", "lp", "local")
        g.add_file("proj", "lp/inner/__init__.py", "lp.inner", "local")
        g.add_file("proj", "lp/inner/lmod.py", "lp.inner.lmod", "local")
    if rng.random() < 0.25:
        # local namespace package (no __init__.py at any level): must stay local
        g.add_file("proj", "lns/inner/nmod.py", "lns.inner.nmod", "local")
    nested = []
    if rng.random() < 0.4:
        # a chain of 1-4 nested regular packages with same-named modules at every level (local, or
        # inside site-packages); relative imports of level 1..3 are written inside it below
        nroot, ntop, nkind = ("proj", "np", "local") if rng.random() < 0.8 else ("sp", "nq", "pip")
        nested = g.nested_packages(nroot, ntop, rng.randint(1, 4), nkind,
                                   modules=("util", "hlp") if rng.random() < 0.4 else ("util",), always=False)
    members = {"keyword": "iskeyword", "colorsys": "rgb_to_hls", "token": "tok_name", "sys": "argv", "os": "sep",
               "math": "pi"}
    level = rng.choice([0, 1, 1, 2, 2, 3, 3])
    for n in rng.sample(STDLIB_LEAF, rng.randint(0, 2)):
        g.add_name(n, "stdlib")
    if rng.random() < 0.35:
        g.add_name(rng.choice(STDLIB_OPAQUE), "opaque")
    if rng.random() < 0.5:
        # the wider universe; at level 3 only modules behind which nothing can be followed (a source
        # with imports would have to be analysed together with everything it imports)
        wide = sorted(n for n, (_, leafy) in STDLIB_CLASS.items() if n != "__future__" and (level < 3 or leafy))
        for n in rng.sample(wide, rng.randint(1, 2)):
            if n not in g.names:
                g.add_name(n, "stdlib")
                members[n] = STDLIB_WIDE[n]
    if "__future__" in STDLIB_CLASS and rng.random() < 0.35:
        g.add_name("__future__", "stdlib")
        k = rng.choice([1, 1, 2, 3])
        feats = rng.sample(FUTURE_FEATURES, k)
        members["__future__"] = feats[0] if k == 1 else tuple(feats)
    if STDLIB_GONE_HERE and rng.random() < 0.04:
        n = rng.choice(STDLIB_GONE_HERE)
        g.add_name(n, "missing")
        members[n] = "q"
    rattr_form = rng.choice(RATTR_FORMS) if rng.random() < 0.3 else None
    if rattr_form:
        g.add_name(rattr_form[0], "rattr")
        members[rattr_form[0]] = rattr_form[1]
    missing = rng.random() < 0.15
    if missing:
        g.add_name(MISSING, "missing")
        members[MISSING] = "q"
    names = [n for n in g.names if n != "target"]
    for key in list(g.files):
        src_name = next(n for n, i in g.names.items() if i["file"] == key)
        k = rng.choice([0, 1, 1, 2, 2, 3]) if key != ("proj", "target.py") else rng.randint(1, 4)
        for dst in rng.sample(names + ["target"], min(k, len(names) + 1)):
            if dst == src_name or g.names[dst]["file"] == key:
                continue  # no self-import (under either name)
            g.add_import(key, dst, member=members.get(dst))
    if nested:
        # relative imports inside the chain (every level the position of the file allows), and one
        # absolute import of a module of the chain by the target, so that the chain is reachable
        for key in [k_ for k_ in g.files if g.names_of(k_) & set(nested)]:
            src_name = g.primary(key)
            dsts = [d for d in nested if d != src_name and g.rel_candidates(key, d)]
            for dst in rng.sample(dsts, min(len(dsts), rng.choice([0, 1, 1, 2]))):
                g.add_import(key, dst, form="rel")
        deep = [n for n in nested if "." in n]
        g.add_import(("proj", "target.py"), rng.choice(deep or nested))
    pool = pattern_pool(g)
    r = rng.random()
    patterns = [] if r < 0.35 else rng.sample(pool, 1 if r < 0.8 else 2)
    if missing and rng.random() < 0.8:
        patterns.append("zz_missing.*")
    # import statements in module-level block positions (half of the projects; per file 60 %); one
    # statement class without a visit_ method per project at most (the signature names it)
    blocks = False
    if rng.random() < 0.5:
        opaque = rng.choice(sorted(OPAQUE_KINDS)) if rng.random() < 0.2 else None
        for key, f in g.files.items():
            n, nf = len(f["stmts"]), f.get("nf_stmt", 0)
            if n > nf and rng.random() < 0.6:
                g.place(key, random_tree(rng, nf, n, opaque))
                blocks = True
    c = g.case(level, patterns)
    c["shape"] = {"two_names": two_names, "missing": missing, "nested": bool(nested), "blocks": blocks}
    return c


def corpus_cases():
    """Minimal witnesses of the known findings (run first, so each run re-confirms them)."""
    g = Gen(random.Random(0))
    g.add_file("proj", "target.py", "target", "local")
    g.add_file("proj", "pk/__init__.py", "pk", "local")
    g.add_file("proj", "pk/s0.py", "pk.s0", "local")
    g.extra_path.append("pk")
    g.add_name("s0", "local", ("proj", "pk/s0.py"))
    g.add_import(("proj", "target.py"), "pk.s0", form="from")
    g.add_import(("proj", "target.py"), "s0", form="import")
    g.files[("proj", "target.py")]["calls"] = ["f_pk_s0(x)", "s0.f_pk_s0(x)"]
    c = g.case(1, [])
    c["shape"] = {"two_names": True, "missing": False, "corpus": "two-names-one-origin"}
    yield c
    g = Gen(random.Random(0))
    g.add_file("proj", "target.py", "target", "local")
    g.add_name("keyword", "stdlib")
    g.add_import(("proj", "target.py"), "keyword", form="import")
    c = g.case(3, ["keyword"])
    c["shape"] = {"two_names": False, "missing": False, "corpus": "excluded-stdlib"}
    yield c
    for form in ("from", "import", "from_pkg"):
        g = Gen(random.Random(0))
        g.add_file("proj", "target.py", "target", "local")
        g.add_file("proj", "lm0.py", "lm0", "local")
        g.add_file("sp", "nsq/inner/mod.py", "nsq.inner.mod", "pip")
        g.add_file("sp", "pq0/__init__.py", "pq0", "pip")
        g.add_file("sp", "pq0/sub/__init__.py", "pq0.sub", "pip")
        g.add_file("sp", "pq0/sub/deep.py", "pq0.sub.deep", "pip")
        g.add_import(("proj", "target.py"), "nsq.inner.mod", form=form)
        g.add_import(("proj", "target.py"), "pq0.sub.deep", form=form)
        g.add_import(("proj", "target.py"), "lm0", form="from")
        t = g.files[("proj", "target.py")]
        t["calls"] = [{"from": "f_nsq_inner_mod(x)", "import": "nsq.inner.mod.f_nsq_inner_mod(x)",
                       "from_pkg": "mod.f_nsq_inner_mod(x)"}[form],
                      {"from": "f_pq0_sub_deep(x)", "import": "pq0.sub.deep.f_pq0_sub_deep(x)",
                       "from_pkg": "deep.f_pq0_sub_deep(x)"}[form], "f_lm0(x)"]
        for lvl in (1, 2):
            c = g.case(lvl, [])
            c["shape"] = {"two_names": False, "missing": False, "corpus": f"namespace-pip-{form}-f{lvl}"}
            yield c


def alias_cases():
    """One real file reachable under two module names / one search dir under two spellings: every
    mechanism x where the second name is imported (by the target itself / by a followed import — the
    second name is then only used in a function the target calls). Plus site-packages reached through
    a symlink whose spelling does not contain 'site-packages' (levels 1, 2)."""
    layouts = [("subdir-on-path", sp) for sp in ("real", "symlink", "dot", "dotdot", "slash")] + \
              [("symlinked-dir", None), ("symlinked-file", None)]
    for kind, spell in layouts:
        for where in ("target", "followed-import"):
            g = Gen(random.Random(0))
            g.add_file("proj", "target.py", "target", "local")
            g.add_file("proj", "lm0.py", "lm0", "local")
            g.add_file("proj", "lm1.py", "lm1", "local")
            g.add_file("proj", "pk/__init__.py", "pk", "local")
            g.add_file("proj", "pk/s0.py", "pk.s0", "local")
            if kind == "subdir-on-path":
                g.alias_subdir_on_path(spell)
                first, second, call2 = "pk.s0", "s0", "s0.f_pk_s0(x)"
            elif kind == "symlinked-dir":
                g.alias_symlinked_dir()
                first, second, call2 = "pk.s0", "lnk.s0", "lnk.s0.f_pk_s0(x)"
            else:
                g.alias_symlinked_file(1)
                first, second, call2 = "lm1", "al1", "al1.f_lm1(x)"
            t = ("proj", "target.py")
            g.add_import(t, first, form="from")
            g.add_import(t, "lm0", form="from")
            holder = t if where == "target" else ("proj", "lm0.py")
            g.add_import(holder, second, form="import")
            g.files[("proj", "lm0.py")]["calls"] = []
            g.files[t]["calls"] = [f"f_{tag_of(first)}(x)", "f_lm0(x)"]
            g.files[holder]["calls"] = g.files[holder]["calls"] + [call2]
            c = g.case(1, [])
            c["shape"] = {"two_names": kind, "missing": False, "corpus": f"alias:{kind}:{spell}:{where}",
                          "cli": where == "target" or spell == "symlink"}
            yield c
    for lvl in (1, 2):
        g = Gen(random.Random(0))
        g.add_file("proj", "target.py", "target", "local")
        g.add_file("proj", "lm0.py", "lm0", "local")
        g.add_file("sp", "pq1.py", "pq1", "pip")
        g.add_file("sp", "pq0/__init__.py", "pq0", "pip")
        g.add_file("sp", "pq0/u0.py", "pq0.u0", "pip")
        g.sp_through_symlink()
        t = ("proj", "target.py")
        g.add_import(t, "pq1", form="import")
        g.add_import(t, "lm0", form="from")
        g.add_import(("proj", "lm0.py"), "pq0.u0", form="from")
        g.files[t]["calls"] = ["pq1.f_pq1(x)", "f_lm0(x)"]
        g.files[("proj", "lm0.py")]["calls"] = ["f_pq0_u0(x)"]
        c = g.case(lvl, [])
        c["shape"] = {"two_names": False, "missing": False, "corpus": f"site-packages-through-symlink-f{lvl}"}
        yield c


def stdlib_universe_cases():
    """Every class of stdlib name (STDLIB_CLASS: __future__ with one / several features and in every
    import form, frozen, built-in, extension, source module / package, dotted) imported by the target
    and by a followed local module, at every level at which the graph can be closed (level 3 only for
    modules behind which nothing can be followed). Ground truth: all of them are stdlib, analysed
    only at level 3."""
    picks, seen_cls = [], set()
    for n in STDLIB_WIDE:                      # one representative per class, plus all dotted names
        if n in STDLIB_CLASS and n != "__future__":
            cls = STDLIB_CLASS[n][0]
            if cls not in seen_cls or cls.endswith(":dotted"):
                seen_cls.add(cls)
                picks.append((n, STDLIB_WIDE[n], None))
    if "__future__" in STDLIB_CLASS:
        picks += [("__future__", "annotations", "from"), ("__future__", ("division", "annotations", "generator_stop"), "from"),
                  ("__future__", "print_function", "from_as"), ("__future__", None, "import"),
                  ("__future__", None, "import_as")]
    for name, member, form in picks:
        leafy = STDLIB_CLASS[name][1]
        for where in ("target", "followed-import"):
            for level in range(4):
                if level == 3 and not leafy:
                    continue
                if name != "__future__" and (level == 0 or (where == "followed-import" and level == 2)):
                    continue            # keep the block small: the FUTURE rows are complete
                g = Gen(random.Random(level))
                g.add_file("proj", "target.py", "target", "local")
                g.add_file("proj", "lm0.py", "lm0", "local")
                g.add_file("sp", "pq1.py", "pq1", "pip")
                g.add_name(name, "stdlib")
                t = ("proj", "target.py")
                g.add_import(t, "lm0", form="from")
                g.add_import(t, "pq1", form="import")
                holder = t if where == "target" else ("proj", "lm0.py")
                g.add_import(holder, name, form=form, member=member)
                if where == "followed-import" and name == "__future__":
                    g.add_import(("sp", "pq1.py"), name, form="from", member="annotations")
                g.files[t]["calls"] = ["f_lm0(x)", "pq1.f_pq1(x)"]
                c = g.case(level, [])
                c["shape"] = {"two_names": False, "missing": False,
                              "corpus": f"stdlib:{STDLIB_CLASS[name][0]}:{name}:{where}:f{level}",
                              "cli": name == "__future__" and form == "from" and not isinstance(member, tuple)
                              and (where == "target" or level == 1)}
                yield c


def relative_cases():
    """Relative imports of every level 1..3 written in the `__init__.py` of a package nested 1..4 deep and
    in a module of that package, in every statement shape (`from ..util import f`, `from .. import util`,
    `from .. import f_<package>`, `from ..q2.util import f`), with a same-named module `util.py` in EVERY
    package of the chain and at the top level — the importing file reached as a followed import of
    target.py, or being the target itself (`python -m rattr np/q1/q2/__init__.py`). Only the module
    `importlib.util.resolve_name` names is reachable; every other `util` is a decoy nothing imports.
    Variants: the chain inside site-packages (levels 1 and 2), the reachable module excluded by a
    pattern (then none of them may be analysed)."""
    def build(root, top, kind, d, importer, lvl, shape, where, level=1, patterns=()):
        g = Gen(random.Random(0))
        chain = [top] + [f"q{i}" for i in range(1, d)]
        pkg = ".".join(chain)
        if where == "followed-import":
            g.add_file("proj", "target.py", "target", "local")
        g.nested_packages(root, top, d, kind)
        if importer == "init":
            src_key, src_name = (root, "/".join(chain) + "/__init__.py"), pkg
        else:
            src_key, src_name = (root, "/".join(chain) + "/m.py"), pkg + ".m"
            g.add_file(root, src_key[1], src_name, kind)
        anc = chain[: d - (lvl - 1)]
        if shape == "mod":              # from <dots>util import f
            dst, rel = ".".join(anc + ["util"]), (lvl, "util", "rel_from_mod")
        elif shape == "pkg":            # from <dots> import util
            dst, rel = ".".join(anc + ["util"]), (lvl, None, "rel_from_pkg")
        elif shape == "anc":            # from <dots> import f_<ancestor package>
            dst, rel = ".".join(anc), (lvl, None, "rel_from_anc")
        else:                           # "down": from <dots>q<k>.util import f — down again into the chain
            if len(anc) >= d:
                return None
            nxt = chain[len(anc)]
            dst, rel = ".".join(anc + [nxt, "util"]), (lvl, nxt + ".util", "rel_from_mod")
        if dst == src_name:
            return None
        g.add_import(src_key, dst, rel=rel)
        ident = g.files[src_key]["stmts"][-1].split()[-1]
        g.files[src_key]["calls"] = [f"{ident}.f_{tag_of(dst)}(x)" if shape == "pkg" else f"{ident}(x)"]
        if where == "followed-import":
            t = ("proj", "target.py")
            g.add_import(t, src_name, form="from")
            g.files[t]["calls"] = [f"f_{tag_of(src_name)}(x)"]
            c = g.case(level, list(patterns))
        else:
            c = g.case(level, list(patterns), target_file=f"{src_key[0]}/{src_key[1]}")
        c["shape"] = {"two_names": False, "missing": False,
                      "corpus": f"relative:{kind}:depth{d}:{importer}:level{lvl}:{shape}:{where}"
                                + (":excluded" if patterns else "") + f":f{level}",
                      "cli": False}
        c["_reached"] = dst
        return c

    for d in range(1, 5):
        for lvl in range(1, min(REL_MAX_LEVEL, d) + 1):
            for importer in ("init", "module"):
                for shape in ("mod", "pkg", "anc", "down"):
                    for where in ("followed-import", "target"):
                        c = build("proj", "np", "local", d, importer, lvl, shape, where)
                        if c is None:
                            continue
                        # through the real CLI as well: the deeper levels in __init__ files (both ways of
                        # reaching the file) and one row of module importers
                        c["shape"]["cli"] = (shape == "mod" and lvl >= 2 and (importer == "init" or d == 3)) \
                            or (shape == "pkg" and lvl == 2 and d == 3 and where == "target")
                        yield c
    for d, lvl in ((3, 2), (4, 3), (4, 2)):
        for importer in ("init", "module"):
            # the chain inside site-packages: nothing of it below level 2, the resolved module at level 2
            for level in (1, 2):
                c = build("sp", "nq", "pip", d, importer, lvl, "mod", "followed-import", level=level)
                yield c
            # the reachable module excluded by name: no `util` at all may be analysed
            c0 = build("proj", "np", "local", d, importer, lvl, "mod", "followed-import")
            yield build("proj", "np", "local", d, importer, lvl, "mod", "followed-import",
                        patterns=[re.escape(c0["_reached"])])


def _blk(k, *parts):
    return {"k": k, "parts": [[lab, list(sub)] for lab, sub in parts]}


# name -> tree over the three import statements (0, 1, 2) of the importing file
BLOCK_TEMPLATES = {
    "if-else": lambda: [_blk("if", ("body", [0]), ("else", [1])), 2],
    "if-elif-else": lambda: [_blk("if", ("body", [0]), ("elif", [1]), ("else", [2]))],
    "if-elif-elif": lambda: [_blk("if", ("body", []), ("elif", [0]), ("elif", [1])), 2],
    "try-except-else": lambda: [_blk("try", ("body", [0]), ("except", [1]), ("else", [2]))],
    "try-except-except-finally": lambda: [_blk("try", ("body", []), ("except", [0]), ("except", [1]), ("finally", [2]))],
    "try-finally": lambda: [0, _blk("try", ("body", [1]), ("finally", [2]))],
    "with": lambda: [_blk("with", ("body", [0, 1])), 2],
    "for-else": lambda: [_blk("for", ("body", [0]), ("else", [1])), 2],
    "while-else": lambda: [0, _blk("while", ("body", [1]), ("else", [2]))],
    "nested:for-else/try/if-else": lambda: [_blk("for", ("body", []), ("else", [
        _blk("try", ("body", [_blk("if", ("body", []), ("else", [0]))]), ("except", [1]))])), 2],
    "nested:with/if-elif/if-else": lambda: [_blk("with", ("body", [
        _blk("if", ("body", []), ("elif", [_blk("if", ("body", [0]), ("else", [1]))]))])), 2],
    "nested:if-else/try-finally/while-else": lambda: [_blk("if", ("body", [0]), ("else", [
        _blk("try", ("body", []), ("finally", [_blk("while", ("body", [1]), ("else", [2]))]))]))],
    # match / try-except* (descended since 6e8e4cc) and a class body (no descending visit_ method)
    "match": lambda: [_blk("match", ("case", [0]), ("case", [1])), 2],
    "trystar": lambda: [_blk("trystar", ("body", [0]), ("except", [1])), 2],
    "class": lambda: [0, _blk("class", ("body", [1])), 2],
    "nested:if-else/match": lambda: [0, _blk("if", ("body", []), ("else", [_blk("match", ("case", [1]))])), 2],
}


def block_cases():
    """Import statements in every module-level block position (if / elif / else, try / except / else /
    finally, with, for / else, while / else, nested three deep; and inside `match`, `try ... except*`, a class
    body) x the importing file being the target / a followed import x statement form. The three modules
    imported there are reachable through these statements only; lm3 imports pq1 (pip) plainly, so that at
    level 2 something lies BEHIND a module imported in a block."""
    for name, tpl in BLOCK_TEMPLATES.items():
        for where in ("target", "followed-import"):
            for form, level in (("from", 1), ("import", 2)):
                if form == "import" and not (name.startswith("nested") or name in ("if-else", "try-except-else", "match")):
                    continue
                g = Gen(random.Random(0))
                t = ("proj", "target.py")
                g.add_file(*t, "target", "local")
                for i in range(4):
                    g.add_file("proj", f"lm{i}.py", f"lm{i}", "local")
                g.add_file("sp", "pq1.py", "pq1", "pip")
                holder = t if where == "target" else ("proj", "lm0.py")
                if where != "target":
                    g.add_import(t, "lm0", form="from")
                for i in (1, 2, 3):
                    g.add_import(holder, f"lm{i}", form=form)
                g.add_import(("proj", "lm3.py"), "pq1", form="from")
                first = len(g.files[holder]["stmts"]) - 3
                shift = lambda items: [x + first if isinstance(x, int) else
                                       {"k": x["k"], "parts": [[l, shift(s_)] for l, s_ in x["parts"]]} for x in items]
                g.place(holder, list(range(first)) + shift(tpl()))
                g.files[("proj", "lm3.py")]["calls"] = ["f_pq1(x)"]
                g.files[holder]["calls"] = [f"f_lm{i}(x)" if form == "from" else f"lm{i}.f_lm{i}(x)" for i in (1, 2, 3)]
                if where != "target":
                    g.files[t]["calls"] = ["f_lm0(x)"]
                c = g.case(level, [])
                c["shape"] = {"two_names": False, "missing": False, "corpus": f"block:{name}:{where}:{form}:f{level}",
                              "cli": where == "target" and form == "from" and name in
                              ("if-else", "if-elif-else", "try-except-else", "for-else", "nested:for-else/try/if-else", "match")}
                yield c


def enumerated_cases(nodes):
    """Every import graph over the fixed nodes (target + locals + one pip module), one import form,
    x levels x 3 pattern sets."""
    import itertools
    kinds = {"target": "local", "lm0": "local", "lm1": "local", "pq1": "pip", "nsq.inner.mod": "pip"}
    files = {"target": ("proj", "target.py"), "lm0": ("proj", "lm0.py"), "lm1": ("proj", "lm1.py"),
             "pq1": ("sp", "pq1.py"), "nsq.inner.mod": ("sp", "nsq/inner/mod.py")}
    outs = {n: [m for m in nodes if m != n and not (kinds[n] == "pip" and m == "target")] for n in nodes}
    subsets = {n: [c for r in range(len(outs[n]) + 1) for c in itertools.combinations(outs[n], r)] for n in nodes}
    for combo in itertools.product(*[subsets[n] for n in nodes]):
        if not combo[0]:
            continue  # the target imports nothing
        for level in range(4):
            for patterns in ([], ["lm0"], ["(pq|nsq).*", "lm1"]):
                g = Gen(random.Random(0))
                for n in nodes:
                    g.add_file(files[n][0], files[n][1], n, kinds[n])
                for n, dsts in zip(nodes, combo):
                    for d in dsts:
                        g.add_import(files[n], d, form="from")
                for f in g.files.values():
                    f["calls"] = [c for c in f["calls"]]
                c = g.case(level, patterns)
                c["shape"] = {"two_names": False, "missing": False, "enumerated": True}
                yield c


# ------------------------------------------------------------------ how the configuration reaches rattr

# every way a user can set the follow level (the option table has ONE option with dest
# `_follow_imports_level`: flags -f / --follow-imports — Tie A `tieA_follow_option`; there are no
# legacy flags in this version) and the exclusion patterns.
LEVEL_CHANNELS = ["direct",                     # Arguments(...) built by the harness (no parsing at all)
                  "cli:-f", "cli:--follow-imports", "cli:--follow-imports=", "cli:-fN", "cli:last-wins",
                  "toml:pyproject",             # ./pyproject.toml [tool.rattr] follow-imports = N
                  "toml:parent-dir",            # ../pyproject.toml (the project root is a parent of the cwd)
                  "toml:-c", "toml:--config",   # -c FILE overrides ./pyproject.toml (which says M != N)
                  "toml:-c-missing-file",       # -c names no file: ./pyproject.toml applies
                  "toml+cli",                   # ./pyproject.toml says M, the command line says N
                  "default"]                    # nothing anywhere: level 1
# Configuration DISCOVERY: which pyproject.toml is "the project's". Four directories, nearest first: D0 = the
# working directory (proj), D1 = its parent, D2, D3; each carries one marker:
#   "-" nothing | "inner" pyproject.toml with the [tool.rattr] table that must apply | "other" a pyproject.toml of
#   some other project ([tool.rattr] with another level and the pattern '.*') | "no-table" a pyproject.toml
#   without [tool.rattr] | "git" .git/ | "git-file" .git as a file (worktree, submodule) | "hg" .hg/ | "svn" .svn/
#   | "hg-file" / "svn-file" (a FILE of that name marks nothing) | "git+other"
# [interp] the project root is the NEAREST directory at or above the working directory that has a
# pyproject.toml, .git (directory or file), .hg/ or .svn/ (rattr's `find_project_root`, the convention of
# black / isort / pytest's rootdir); its pyproject.toml, if any, is the project's. Layouts named
# `nested:…` have `inner` as that nearest root (the level and patterns come from its table); layouts
# named `nested-none:…` have a nearest root WITHOUT a [tool.rattr] table above which another project's table
# lies: no TOML applies (level and patterns through the command line, or the defaults).
NESTED_LAYOUTS = {
    "nested:inner@cwd<git": ["inner", "-", "git", "-"],
    "nested:inner@cwd<other": ["inner", "other", "-", "git"],
    "nested:inner@parent<git": ["-", "inner", "git", "-"],
    "nested:inner@parent<other": ["-", "inner", "other", "-"],
    "nested:inner@parent<-<git+other": ["-", "inner", "-", "git+other"],
    "nested:inner@parent<hg<other": ["-", "inner", "hg", "other"],
    "nested:inner@parent<svn": ["-", "inner", "-", "svn"],
    "nested:inner@parent<git-file": ["-", "inner", "git-file", "-"],
    "nested:inner@grandparent<git": ["-", "-", "inner", "git"],
    "nested:inner@grandparent<other": ["hg-file", "-", "inner", "other"],
    "nested:hg-file@parent<inner<other": ["-", "hg-file", "inner", "other"],
    "nested-none:no-table@parent<other": ["-", "no-table", "other", "-"],
    "nested-none:git@parent<other": ["-", "git", "other", "-"],
    "nested-none:git-file@cwd<other": ["git-file", "other", "-", "-"],
    "nested-none:svn@grandparent<git+other": ["svn-file", "-", "svn", "git+other"],
}
NEST = "outer/api"                   # D1 = <case dir>/outer/api, D2 = <case dir>/outer, D3 = <case dir>
LEVEL_CHANNELS += list(NESTED_LAYOUTS)
ROOT_MARKERS = ("inner", "other", "no-table", "git", "git-file", "hg", "svn", "git+other")
MARKER_FILES = {"git": {".git/HEAD": "ref: refs/heads/main\n"}, "git-file": {".git": "gitdir: /nowhere/.git/worktrees/x\n"},
                "hg": {".hg/requires": "store\n"}, "svn": {".svn/format": "12\n"},
                "hg-file": {".hg": "x\n"}, "svn-file": {".svn": "x\n"}}
PATTERN_CHANNELS = ["cli:-F", "cli:--exclude-import", "toml", "split"]
TOML_SPELLINGS = ["plain", "quoted-key", "dotted-table", "inline-table", "nospace", "plus", "hex", "oct", "bin"]
NONCANONICAL = ("cli:--follow-imports=", "cli:-fN")     # argparse tokeniser: outside the Lean CLI model


def toml_value(v, radix=None):
    if isinstance(v, bool):
        return "true" if v else "false"
    if isinstance(v, int):
        return {"plus": f"+{v}", "hex": f"0x{v:x}", "oct": f"0o{v:o}", "bin": f"0b{v:b}"}.get(radix, str(v))
    if isinstance(v, str):
        assert "'" not in v
        return "'" + v + "'"
    return "[" + ", ".join(toml_value(x) for x in v) + "]"


def toml_text(entries, spelling):
    """The text of a TOML file whose [tool.rattr] table has these entries, in one of the spellings."""
    radix = spelling if spelling in ("plus", "hex", "oct", "bin") else None
    kv = [(k, toml_value(v, radix)) for k, v in entries]
    if spelling == "inline-table":
        return "tool.rattr = { " + ", ".join(f"{k} = {v}" for k, v in kv) + " }\n"
    if spelling == "dotted-table":
        return "[tool]\n" + "".join(f"rattr.{k} = {v}\n" for k, v in kv) + ("rattr = {}\n" if not kv else "")
    if spelling == "quoted-key":
        return "[tool.rattr]\n" + "".join(f'"{k}" = {v}\n' for k, v in kv)
    if spelling == "nospace":
        return "[tool.rattr]\n" + "".join(f"{k}={v}\n" for k, v in kv)
    return "[project]\nname = 'x'\n\n[tool.rattr]\n" + "".join(f"{k} = {v}\n" for k, v in kv)


def toml_model(entries):
    """The same table as the Lean CLI model reads it (RattrDriver/C20 `parseToml`)."""
    def sc(v):
        if isinstance(v, bool):
            return {"b": v}
        if isinstance(v, int):
            return {"i": v}
        return {"s": v}
    return [[k, ({"l": [sc(x) for x in v]} if isinstance(v, list) else sc(v))] for k, v in entries]


def deliver(level, patterns, ch):
    """argv (without the target), configuration files (root-relative) and the Lean CLI model's view
    of them, for delivering (level, patterns) through channel `ch`."""
    via, pvia, other = ch["level_via"], ch.get("patterns_via", "cli:-F"), ch.get("other_level", 0)
    spelling, decor = ch.get("toml_spelling", "plain"), ch.get("decor", 0)
    argv, sel, unsel = [], [], None      # sel: entries of the TOML file that must apply; unsel: of the overridden one
    k = len(patterns)
    toml_pats = patterns if pvia == "toml" else (patterns[: (k + 1) // 2] if pvia == "split" else [])
    cli_pats = patterns[len(toml_pats):]
    nested = NESTED_LAYOUTS.get(via)
    if nested and "inner" not in nested[:1 + next(i for i, m in enumerate(nested) if m in ROOT_MARKERS)]:
        pvia = pvia if pvia.startswith("cli:") else "cli:-F"        # no TOML table applies in this layout
        toml_pats, cli_pats = [], list(patterns)
    if via in ("toml:pyproject", "toml:parent-dir", "toml:-c", "toml:--config", "toml:-c-missing-file") \
            or via.startswith("nested:"):
        sel.append(("follow-imports", level))
    elif via == "toml+cli":
        sel.append(("follow-imports", other))
    if toml_pats:
        sel.append(("exclude-imports", list(toml_pats)))
    # falsy / unknown entries around (they must contribute nothing)
    before = [[], [("strict", False)], [("threshold", 0), ("exclude-imports", [])] if not toml_pats else [("exclude", [])],
              [("not-an-option", 5), ("collapse-home", False)]][decor % 4]
    if sel or decor:
        sel = before + sel + ([("truncate-deep-paths", False)] if decor >= 4 else [])
    if via == "cli:-f":
        argv += ["-f", str(level)]
    elif via == "cli:--follow-imports":
        argv += ["--follow-imports", str(level)]
    elif via == "cli:--follow-imports=":
        argv += [f"--follow-imports={level}"]
    elif via == "cli:-fN":
        argv += [f"-f{level}"]
    elif via == "cli:last-wins":
        argv += ["-f", str(other), "--follow-imports", str(level)]
    elif via == "toml+cli":
        argv += ["-f", str(level)]
    elif via.startswith("nested-none:") and level != 1:
        argv += ["-f", str(level)]
    for p in cli_pats:
        argv += ["--exclude-import" if pvia == "cli:--exclude-import" else "-F", p]
    aux, world = {}, {"cwd": {"vcs": False, "pyproject": None}, "parents": [{"vcs": False, "pyproject": None}],
                      "override": None}
    markers, foreign = {}, {}        # VCS marker files; TOML files of the nested layouts -> their [tool.rattr] entries
    if via in ("toml:-c", "toml:--config"):
        unsel = [("follow-imports", other)]
        aux["proj/conf/alt.toml"] = toml_text(sel, spelling)
        aux["proj/pyproject.toml"] = toml_text(unsel, "plain")
        argv = ["-c" if via == "toml:-c" else "--config", "conf/alt.toml"] + argv
        world["override"], world["cwd"]["pyproject"] = toml_model(sel), toml_model(unsel)
    elif via == "toml:parent-dir":
        aux["pyproject.toml"] = toml_text(sel, spelling)
        world["parents"][0]["pyproject"] = toml_model(sel)
    elif nested:
        if via.startswith("nested-none:"):
            sel = []
        oth = [("follow-imports", other), ("exclude-imports", [".*"])]
        dirs = []
        for depth, mark in enumerate(nested):
            pre = ["proj/", "", "../", "../../"][depth]
            toml = {"inner": sel, "other": oth, "git+other": oth, "no-table": None}.get(mark, False)
            if toml is not False:
                aux[pre + "pyproject.toml"] = toml_text(toml, spelling if mark == "inner" else "plain") if toml is not None \
                    else "[project]\nname = 'x'\n\n[tool.black]\nline-length = 100\n"
                foreign[pre + "pyproject.toml"] = toml or []
            for rel, text in MARKER_FILES.get(mark.split("+")[0], {}).items():
                markers[pre + rel] = text
            # the Lean world: `vcs` = a marker `_is_project_root` accepts (by the documented rule)
            dirs.append({"vcs": mark.split("+")[0] in ("git", "git-file", "hg", "svn"),
                         "pyproject": None if toml is False else toml_model(toml or [])})
        world["cwd"], world["parents"] = dirs[0], dirs[1:]
    elif sel:
        aux["proj/pyproject.toml"] = toml_text(sel, spelling)
        world["cwd"]["pyproject"] = toml_model(sel)
        if via == "toml:-c-missing-file":
            argv = ["-c", "conf/nope.toml"] + argv
    says = {"cli": ([other, level] if via == "cli:last-wins" else [level] if via.startswith("cli:") or via == "toml+cli"
                    or (via.startswith("nested-none:") and level != 1) else []),
            "toml": next((v for k_, v in sel if k_ == "follow-imports"), None),
            "toml_patterns": list(toml_pats), "cli_patterns": list(cli_pats)}
    model = None if via in NONCANONICAL else {"world": world, "argv": argv + ["target.py"], "says": says}
    # self-check with an independent reading of the files written (tomllib; dict semantics)
    import tomllib
    for rel, text in aux.items():
        want = dict(unsel) if (unsel is not None and rel == "proj/pyproject.toml") else dict(sel)
        if rel in foreign:
            want = dict(foreign[rel])
        got = tomllib.loads(text).get("tool", {}).get("rattr", {})
        assert got == want, (rel, text, want)
    aux.update(markers)
    return {"argv": argv, "aux_files": aux, "model": model, "nest": NEST if nested else None,
            "selected": [[k_, v_] for k_, v_ in sel], "toml_spelling": spelling}


def set_channel(case, ch):
    """Attach the delivery of (case.level, case.patterns) through `ch` to the case."""
    if ch["level_via"] == "default" and case["level"] != 1:
        ch = dict(ch, level_via="cli:-f")
    if ch["level_via"] == "direct":
        case["channel"] = {"level_via": "direct"}
        return case
    ch = dict(ch)
    ch["other_level"] = (case["level"] + 1 + ch.get("other_level", 0) % 3) % 4     # always != level
    d = deliver(case["level"], case["patterns"], ch)
    case["channel"] = ch
    case["argv"], case["aux_files"], case["cli_model"] = d["argv"], d["aux_files"], d["model"]
    case["toml_selected"] = d["selected"]
    if d.get("nest"):
        case["nest"] = d["nest"]
    return case


def random_channel(rng):
    via = rng.choice(["direct", "direct"] + LEVEL_CHANNELS[1:] + ["toml:pyproject", "toml:parent-dir", "toml:-c"])
    return {"level_via": via, "patterns_via": rng.choice(PATTERN_CHANNELS), "toml_spelling": rng.choice(TOML_SPELLINGS),
            "other_level": rng.randint(0, 2), "decor": rng.randint(0, 7)}


def channel_cases():
    """The follow level through EVERY channel x level 0..3 on one project that has a module of every
    class behind a chain of imports (target -> lm0 -> lm1 -> pq1 -> keyword, target -> pq1, keyword);
    the exclusion patterns through every pattern channel."""
    n = 0
    for via in LEVEL_CHANNELS[1:]:
        for level in range(4):
            if via == "default" and level != 1:
                continue
            g = Gen(random.Random(0))
            g.add_file("proj", "target.py", "target", "local")
            g.add_file("proj", "lm0.py", "lm0", "local")
            g.add_file("proj", "lm1.py", "lm1", "local")
            g.add_file("sp", "pq1.py", "pq1", "pip")
            g.add_name("keyword", "stdlib")
            g.add_import(("proj", "target.py"), "lm0", form="from")
            g.add_import(("proj", "target.py"), "pq1", form="import")
            g.add_import(("proj", "target.py"), "keyword", form="import")
            g.add_import(("proj", "lm0.py"), "lm1", form="import")
            if "__future__" in STDLIB_CLASS:
                g.add_name("__future__", "stdlib")
                g.add_import(("proj", "target.py"), "__future__", form="from", member="annotations")
                g.add_import(("proj", "lm1.py"), "__future__", form="from", member=("division", "annotations"))
            g.add_import(("proj", "lm1.py"), "pq1", form="from")
            g.add_import(("sp", "pq1.py"), "keyword", form="import")
            g.files[("proj", "target.py")]["calls"] = ["f_lm0(x)", "pq1.f_pq1(x)"]
            g.files[("proj", "lm0.py")]["calls"] = ["lm1.f_lm1(x)"]
            g.files[("proj", "lm1.py")]["calls"] = ["f_pq1(x)"]
            n += 1
            pats = [[], ["lm1"], ["lm1", "pq.*"], ["nomatch_.*", "pq1", "lm1"]][n % 4]
            c = g.case(level, pats)
            # through the real CLI as well: every level for the primary channels, level 0 and one other
            # level for the variants (all of them run in-process through the real parse_arguments)
            primary = via in ("cli:-f", "cli:--follow-imports", "toml:pyproject", "toml:parent-dir", "toml:-c",
                              "toml+cli", "default")
            c["shape"] = {"two_names": False, "missing": False, "channel-matrix": True,
                          "cli": primary or level in (0, 1 + n % 3)}
            yield set_channel(c, {"level_via": via, "patterns_via": PATTERN_CHANNELS[(n // 4) % 4],
                                  "toml_spelling": TOML_SPELLINGS[n % len(TOML_SPELLINGS)], "other_level": n % 3,
                                  "decor": n % 8})


def tgt_key(case):
    """The file rattr is asked to analyse (root-relative); normally proj/target.py."""
    return case.get("target_file", "proj/target.py")


def tgt_arg(case):
    """The same as given on the command line (relative to the working directory proj/)."""
    k = tgt_key(case)
    assert k.startswith("proj/")
    return k[len("proj/"):]


# ------------------------------------------------------------------ project on disk

class Project:
    def __init__(self, base, idx, case):
        self.top = Path(base) / f"c{idx}"
        # `nest`: directories between the case's directory and the root of the generated tree (configuration
        # discovery: project-root markers in the directories ABOVE the working directory)
        self.root = self.top / case.get("nest", "") if case.get("nest") else self.top
        self.proj = self.root / "proj"
        self.sp = self.root / "sp" / "site-packages"
        self.case = case
        self.proj.mkdir(parents=True)
        self.sp.mkdir(parents=True)
        for rel, src in case["files"].items():
            p = self.path_of(rel)
            p.parent.mkdir(parents=True, exist_ok=True)
            p.write_text(src)
        for rel, src in case.get("aux_files", {}).items():     # configuration files, root-relative
            p = self.root / rel
            p.parent.mkdir(parents=True, exist_ok=True)
            p.write_text(src)
        for l in case.get("links", []):
            os.symlink(l["to"], self.root / l["at"])

    def path_of(self, rel):
        root, _, r = rel.partition("/")
        return (self.proj if root == "proj" else self.sp) / r

    def spell(self, d: Path, how):
        """One of the spellings of the (real, absolute) directory `d`."""
        if how == "real":
            return str(d)
        if how == "symlink":        # through <root>/via -> .
            return str(self.root / "via" / d.relative_to(self.root))
        if how == "dot":            # relative to the working directory (= proj)
            return "./" + str(d.relative_to(self.proj))
        if how == "dotdot":
            return str(d) + "/../" + d.name
        if how == "slash":
            return str(d) + "/"
        raise ValueError(how)

    @property
    def search_path(self):
        sp = str(self.sp) if self.case.get("sp_spell", "real") == "real" else str(self.root / "vendor")
        out = [sp]
        for e in self.case["extra_path"]:
            if isinstance(e, str):
                out.append(str(self.proj / e))
            else:
                out.append(self.spell(self.proj / e["dir"], e["spell"]))
        return out

    def real_rel(self, path):
        """Root-relative REAL path of a file rattr names (independent of how rattr spelled it)."""
        p = str(path)
        if not os.path.isabs(p):
            p = os.path.join(str(self.proj), p)
        r = os.path.realpath(p)
        return os.path.relpath(r, str(self.root)) if r.startswith(str(self.root) + os.sep) else r

    def cleanup(self):
        shutil.rmtree(self.top, ignore_errors=True)


# ------------------------------------------------------------------ implementation side (in-process)

def make_config(pr: Project):
    """Create the Config singleton for the case: directly from `Arguments(...)` (channel `direct`), or
    by the REAL `parse_arguments` on the case's argv with the case's TOML files on disk (cwd = proj).
    Returns None, or a description of why rattr rejected the configuration."""
    from rattr.config import Config, State
    from rattr.config._types import ConfigMetaclass
    case = pr.case
    if case.get("channel", {"level_via": "direct"})["level_via"] == "direct":
        impl.reset_config(_follow_imports_level=case["level"], _excluded_imports=list(case["patterns"]),
                          target=Path(tgt_arg(case)))
        return None
    assert tgt_key(case) == "proj/target.py"      # the channels deliver the configuration for target.py
    from rattr.cli import parse_arguments
    ConfigMetaclass._instance = None
    Config._instance = None
    import contextlib
    import io
    err = io.StringIO()
    with contextlib.redirect_stderr(err), contextlib.redirect_stdout(io.StringIO()):
        out = impl.outcome_of(parse_arguments, sys_args=list(case["argv"]) + ["target.py"])
    if out[0] != "ok":
        return {"outcome": out[0], "detail": [str(x) for x in out[1:]], "stderr": err.getvalue()[-300:]}
    with mock.patch("rattr.config._types.validate_arguments", lambda a: a):
        Config(arguments=out[1], state=State())
    impl.clear_caches_fast()
    return None


def run_impl(pr: Project):
    """The real pipeline on the project; returns observation dict."""
    from rattr.analyser import file as F
    from rattr.config import Config
    from rattr.results import generate_results_from_ir
    from rattr.models.util import serialise

    case = pr.case
    events = []
    orig_analyse = F.FileAnalyser.analyse

    from rattr.models.symbol import Import
    file_syms = []

    def counting(self):
        events.append(str(Config().state.current_file))
        # the Import symbols of the root context this file was compiled to (what the BFS enqueues)
        file_syms.append([[s.qualified_name, s.module_name] for s in self.context.symbol_table.symbols
                          if isinstance(s, Import)])
        return orig_analyse(self)

    queue0 = []
    orig_pai = F.parse_and_analyse_imports

    def tapped(imports):
        queue0.extend(s.qualified_name for s in imports)
        return orig_pai(imports)

    saved_path = list(sys.path)
    obs = {}
    try:
        with impl.in_dir(str(pr.proj)):
            sys.path[1:1] = pr.search_path
            cfg_out = make_config(pr)
            if cfg_out is not None:
                obs.update({"outcome": "config-rejected", "config_detail": cfg_out, "events": [], "events_real": [],
                            "queue0": [], "facts": {"modules": [], "target": [], "outside": []},
                            "flags": {"truthy": False, "loc": False, "pip": False, "stdlib": False}})
                return obs
            with impl.Tap() as tap, mock.patch.object(F.FileAnalyser, "analyse", counting), \
                    mock.patch.object(F, "parse_and_analyse_imports", tapped):
                out = impl.outcome_of(F.parse_and_analyse_file)
                n_events_bfs = len(tap.events)
                obs["outcome"] = out[0] if out[0] != "crash" else f"crash:{out[1]}"
                if out[0] == "crash":
                    obs["crash_msg"] = out[2]
                if out[0] == "ok":
                    file_ir, import_irs, stats = out[1]
                    obs["keys"] = list(import_irs.keys())
                    obs["pops"] = stats.number_of_imports
                    obs["unique"] = stats.number_of_unique_imports
                    rout = impl.outcome_of(generate_results_from_ir, target_ir=file_ir, import_irs=import_irs)
                    if rout[0] == "ok":
                        obs["results"] = "ok"
                        obs["results_text"] = serialise(rout[1])
                    else:
                        obs["results"] = f"{rout[0]}:{rout[1]}" + (f":{rout[2]}" if len(rout) > 2 else "")
            obs["events"] = [os.path.relpath(e, str(pr.root)) if os.path.isabs(e) and e.startswith(str(pr.root))
                             else e for e in events]
            # the REAL file each analysis read (os.path.realpath: independent of rattr's spelling)
            obs["events_real"] = [pr.real_rel(e) for e in events]
            obs["queue0"] = queue0
            obs["file_syms"] = file_syms
            obs["unresolved_msgs"] = sum(1 for e in tap.events[:n_events_bfs]
                                         if e["message"].startswith("unable to resolve import"))
            a = Config().arguments
            obs["flags"] = {"truthy": bool(a.follow_imports), "loc": a.follow_local_imports,
                            "pip": a.follow_pip_imports, "stdlib": a.follow_stdlib_imports}
            obs["impl_level"] = a._follow_imports_level
            obs["impl_patterns"] = list(a._excluded_imports or [])
            obs["facts"] = real_facts(pr)
    finally:
        sys.path[:] = saved_path
    return obs


def real_facts(pr: Project):
    """Per-module facts computed by rattr's REAL locator / classification functions (the model's
    parameters). Must be called inside the case's cwd / sys.path / Config."""
    from rattr.module_locator.util import (find_module_name_and_spec, is_in_import_blacklist, is_in_pip,
                                           is_in_stdlib)
    from isort.api import place_module
    case = pr.case
    by_origin = {}
    for rel, syms in case["symbols"].items():
        by_origin[os.path.realpath(str(pr.path_of(rel)))] = syms

    def imp_fact(sym):
        name, _ = find_module_name_and_spec(sym["qualified"])
        return {"target": name, "declBl": bool(is_in_import_blacklist(sym["declared"]))}

    modules, order = {}, []
    target_imps = [imp_fact(s) for s in case["symbols"][tgt_key(case)]]
    work = [i["target"] for i in target_imps]
    outside = []
    while work:
        n = work.pop(0)
        if n is None or n in modules:
            continue
        _, spec = find_module_name_and_spec(n)
        origin = spec.origin if spec is not None else None
        readable, syms = False, []
        if origin is not None:
            try:
                tree = ast.parse(Path(origin).read_text())
                readable = True
            except Exception:
                tree = None
            if os.path.realpath(origin) in by_origin:
                syms = by_origin[os.path.realpath(origin)]
            elif tree is not None and not n.startswith("rattr"):
                # a real stdlib module: when stdlib modules are followed (level 3) it must have no
                # imports, else the graph cannot be closed here. Below level 3 nothing behind it may be
                # looked at, so its imports are irrelevant (and if rattr follows it all the same, the
                # oracle reports exactly that).
                if case["level"] >= 3 and any(isinstance(x, (ast.Import, ast.ImportFrom)) for x in ast.walk(tree)):
                    outside.append(n)
        m = {"name": n, "origin": origin, "readable": readable,
             "real": (os.path.realpath(origin) if origin is not None and os.path.isabs(origin) else origin),
             "blacklisted": bool(is_in_import_blacklist(n)), "inPip": bool(is_in_pip(n)),
             "inStdlib": bool(is_in_stdlib(n)), "section": str(place_module(n)),
             "excluded": excluded_indep(n, case["patterns"]),
             "imports": [imp_fact(s) for s in syms]}
        modules[n] = m
        order.append(n)
        work.extend(i["target"] for i in m["imports"])
    return {"modules": [modules[n] for n in order], "target": target_imps, "outside": outside}


# ------------------------------------------------------------------ independent knowledge

def excluded_indep(name, patterns):
    """`re.fullmatch` of the module NAME against the user's patterns; rattr itself is always excluded."""
    if name == "rattr" or name.startswith("rattr."):
        return True
    return any(re.fullmatch(p, name) for p in patterns)


def kind_indep(case, name):
    i = case["names"].get(name)
    if i is not None and i["kind"] in ("local", "pip", "missing", "rattr"):
        return i["kind"]
    if name.split(".")[0] in sys.stdlib_module_names:
        return "stdlib"
    if name == "rattr" or name.startswith("rattr."):
        return "rattr"
    return "unknown"


def permitted_indep(case, name):
    lvl = case["level"]
    k = kind_indep(case, name)
    if excluded_indep(name, case["patterns"]):
        return False
    return {"local": lvl >= 1, "pip": lvl >= 2, "stdlib": lvl >= 3}.get(k, False)


def written_syms(case, rel):
    """Every import symbol WRITTEN in a file, wherever it stands at module level (source order)."""
    return (case.get("written") or {}).get(rel) or case["symbols"][rel]


def oracle_reach(case, only_descended=False, without=None):
    """The property's closure over every import statement written at module level (block positions
    included: Python may execute each of them). `only_descended`: without the statements that stand inside
    a statement class RootContextBuilder has no descending visit_ method for (by construction of the
    position); `without`: a kind table — without the statements inside those classes."""
    table = without if without is not None else (OPAQUE_KINDS if only_descended else {})
    keep = lambda s: not opaque_of(s.get("pos", "top"), table)
    imports_of = {}
    for n, i in case["names"].items():
        if i["file"] is not None:
            imports_of[n] = [s["intended"] for s in written_syms(case, i["file"]) if keep(s)]
    tgt = [s["intended"] for s in written_syms(case, tgt_key(case)) if keep(s)]
    return closure(imports_of, tgt, lambda n: permitted_indep(case, n))


def lost_behind(case, want, lost, table=None):
    """The statement classes of `table` (default: those without a descending visit_ method; by construction of
    the positions) inside which the import statements stand that lead from the files of `want` (and the target)
    to the modules `lost`."""
    files = {tgt_key(case)} | {file_of(case, n) for n in want if file_of(case, n)}
    return sorted({k for rel in files for s in written_syms(case, rel)
                   if s["intended"] in lost for k in opaque_of(s.get("pos", "top"), table)})


# ------------------------------------------------------------------ judge

def file_of(case, name):
    i = case["names"].get(name)
    return i["file"] if i else None


def shape_of(case, name):
    """How the module sits on disk (by construction): plain module / regular package / inside a
    PEP 420 namespace package (some ancestor directory has no __init__.py)."""
    f = file_of(case, name)
    if f is None:
        # a stdlib name: its class in the running interpreter (importlib, see STDLIB_CLASS)
        return STDLIB_CLASS[name][0] if name in STDLIB_CLASS else "no-file"
    root, _, rel = f.partition("/")
    parts = rel.split("/")
    dirs = ["/".join(parts[:i]) for i in range(1, len(parts))]
    if any(f"{root}/{d}/__init__.py" not in case["files"] for d in dirs):
        return "in-namespace-package"
    if len(parts) > 2 or (len(parts) == 2 and parts[-1] != "__init__.py"):
        return "in-regular-package"
    return "package" if parts[-1] == "__init__.py" else "top-level-module"


def alias_kind(case, rel):
    """By construction: how the file `rel` got a second module name (one mechanism per project)."""
    vias = sorted({i["via"] for i in case["names"].values() if i.get("file") == rel and i.get("via")})
    if not vias:
        # legacy cases: a second name without a recorded mechanism = a sub-directory on the path
        n = sum(1 for i in case["names"].values() if i.get("file") == rel)
        return "subdir-on-path:real" if n > 1 else None
    v = vias[0]
    return "symlink-inside-search-dir" if v.startswith("symlink-inside-search-dir") else v


def misclassification(case, obs, name):
    """Ground-truth class (where the generator put the file / sys.stdlib_module_names) vs the
    verdicts of the real is_in_pip / is_in_stdlib for this name; None when they agree."""
    m = {x["name"]: x for x in obs["facts"]["modules"]}.get(name)
    k = kind_indep(case, name)
    if m is None or k not in ("local", "pip", "stdlib"):
        return None
    real = "pip" if m["inPip"] else ("stdlib" if m["inStdlib"] else "local")
    if m["inPip"] and m["inStdlib"]:
        real = "pip+stdlib"
    return None if real == k else f"{k}-as-{real}:{shape_of(case, name)}"


def judge(case, obs):
    """Property oracle on the implementation's real output. Returns list of violation signatures
    (with detail). Ground truth is by construction: the class of a module is where the generator
    put its file, never what rattr's classifiers say."""
    out = []
    if obs["outcome"] != "ok":
        return out  # fatal = rattr's own diagnostic; crashes are handled by the caller
    lvl = case["level"]
    want = oracle_reach(case)
    want_desc = oracle_reach(case, only_descended=True)
    want_old = oracle_reach(case, without={**OPAQUE_KINDS, **FIXED_KINDS})      # what was reached before 6e8e4cc
    got = obs["keys"]
    gotset = set(got)
    for n in got:
        if n in want:
            continue
        k = kind_indep(case, n)
        exc = excluded_indep(n, case["patterns"])
        mis = misclassification(case, obs, n)
        if lvl == 0:
            sig = "module-analysed-at-level-0"
        elif mis is not None and not exc and ((k == "pip" and lvl < 2) or (k == "stdlib" and lvl < 3)):
            sig = "module-misclassified:" + mis
        elif k == "rattr":
            sig = "rattr-itself-analysed"
        elif exc and k == "stdlib" and lvl >= 3:
            sig = "excluded-stdlib-module-analysed"
        elif exc:
            sig = f"excluded-{k}-module-analysed"
        elif k == "pip" and lvl < 2:
            sig = "pip-module-analysed-below-level-2"
        elif k == "stdlib" and lvl < 3:
            sig = "stdlib-module-analysed-below-level-3"
        elif k in ("local", "pip", "stdlib"):
            sig = f"unreachable-{k}-module-analysed"
        else:
            sig = f"other:unexpected-module-analysed:{k}"
        out.append({"signature": sig, "module": n})
    files_got = {file_of(case, n) for n in got if file_of(case, n)}
    for n in sorted(want - gotset):
        f = file_of(case, n)
        mis = misclassification(case, obs, n)
        if f is not None and f in files_got:
            sig = "second-name-of-analysed-file-missing-from-import-irs"
        elif mis is not None:
            sig = "module-misclassified:" + mis + ":not-analysed"
        elif n not in want_desc and lost_behind(case, want, want - want_desc):
            # by construction every chain of imports to it passes a statement inside a class body
            sig = "permitted-module-not-analysed:reachable-only-through-imports-inside:" \
                  + "+".join(lost_behind(case, want, want - want_desc))
        elif n not in want_old and lost_behind(case, want_desc, want_desc - want_old, FIXED_KINDS):
            # … inside a match / try-except* statement (the fixed findings; descended since 6e8e4cc)
            sig = "permitted-module-not-analysed:reachable-only-through-imports-inside:" \
                  + "+".join(lost_behind(case, want_desc, want_desc - want_old, FIXED_KINDS))
        else:
            sig = f"permitted-{kind_indep(case, n)}-module-not-analysed"
        out.append({"signature": sig, "module": n,
                    "imported_at": sorted({f"{rel}:{sy['pos']}" for rel in (case.get("written") or {})
                                           for sy in case["written"][rel] if sy["intended"] == n})})
    # each once: analyses per REAL file (the target file once more as the target itself). A file is
    # identified by os.path.realpath of what rattr opened, never by rattr's spelling of the path.
    ev = obs.get("events_real", obs["events"])
    if not ev or ev[-1] != tgt_key(case):
        out.append({"signature": "other:target-not-analysed-last", "events": ev})
    imp_ev = ev[:-1]
    for e in sorted({e for e in imp_ev if imp_ev.count(e) > 1}):
        rel = e.replace("sp/site-packages/", "sp/", 1)
        ak = alias_kind(case, rel)
        out.append({"signature": "file-analysed-more-than-once" + (":" + ak if ak else ""), "file": rel,
                    "times": imp_ev.count(e), "events": obs["events"],
                    "names": sorted(n for n, i in case["names"].items() if i["file"] == rel)})
    files_want0 = {file_of(case, n) for n in want}
    for e in imp_ev:
        rel = e.replace("sp/site-packages/", "sp/", 1)
        if rel in case["files"] and rel not in files_got:
            names = [n for n, i in case["names"].items() if i["file"] == rel]
            why = "excluded" if any(excluded_indep(n, case["patterns"]) for n in names) else \
                ("permitted" if rel in files_want0 else "not-permitted-" + kind_indep(case, names[0]))
            out.append({"signature": f"file-analysed-but-absent-from-import-irs:{why}", "file": rel, "events": ev})
    if len(set(got)) != len(got) or len(got) != len(imp_ev):
        out.append({"signature": "other:import-irs-keys-do-not-match-analyses", "events": ev, "keys": got})
    # functions of modules that were not (legitimately) analysed contribute nothing to results
    if obs.get("results") == "ok":
        txt = obs["results_text"]
        files_want = {file_of(case, n) for n in want}
        for rel in case["files"]:
            if rel == tgt_key(case) or rel in files_want:
                continue
            tag = "attr_" + tag_of_file(case, rel)
            if re.search(re.escape(tag) + r"(?!\w)", txt):
                out.append({"signature": "unanalysed-module-contributes-to-results", "file": rel})
    elif obs.get("results", "").startswith("crash:ImportError"):
        m = re.search(r"'([\w.]+)' not found", obs["results"])
        n = m.group(1) if m else None
        f = file_of(case, n) if n else None
        if not (n in want and n not in gotset and f in files_got):
            out.append({"signature": "other:results-crash:ImportError:module-absent-from-import-irs",
                        "message": obs["results"][:120]})
    elif obs.get("results"):
        out.append({"signature": "other:results-" + obs["results"][:80]})
    return out


def tag_of_file(case, rel):
    for n, i in case["names"].items():
        if i["file"] == rel and i["kind"] in ("local", "pip"):
            # the primary name is the one the file was created for (first registered)
            return tag_of(n)
    return "?"


# ------------------------------------------------------------------ CLI cross-check of the worker

def run_cli(pr: Project):
    case = pr.case
    cmd = [sys.executable, "-m", "rattr"]
    if case.get("channel", {"level_via": "direct"})["level_via"] == "direct":
        cmd += ["-f", str(case["level"])]
        for p in case["patterns"]:
            cmd += ["-F", p]
    else:
        cmd += list(case["argv"])
    cmd += ["-o", "ir", tgt_arg(case)]
    env = dict(os.environ)
    env["PYTHONPATH"] = os.pathsep.join(pr.search_path + ([env["PYTHONPATH"]] if env.get("PYTHONPATH") else []))
    try:
        p = subprocess.run(cmd, cwd=str(pr.proj), env=env, capture_output=True, text=True, timeout=300)
    except subprocess.TimeoutExpired:
        return {"outcome": "timeout"}
    txt = p.stdout
    m = re.search(r"^\{", txt, re.M)
    if p.returncode == 0 and m:
        try:
            j = json.loads(txt[m.start():])
            return {"outcome": "ok", "keys": sorted(j["import_irs"].keys())}
        except Exception as e:
            return {"outcome": "unparsable", "detail": str(e)}
    err = p.stderr + p.stdout
    t = re.findall(r"^(\w+(?:\.\w+)*(?:Error|Exception))\b", err, re.M)
    if "Traceback (most recent call last)" in err and t:
        return {"outcome": "crash:" + t[-1].split(".")[-1]}
    if "fatal" in err:
        return {"outcome": "fatal"}
    return {"outcome": f"exit{p.returncode}"}


# ------------------------------------------------------------------ run

def model_payload(case, obs):
    f = obs["facts"]
    fl = obs["flags"]
    p = {"level": case["level"], "flags": {"loc": fl["loc"], "pip": fl["pip"], "stdlib": fl["stdlib"]},
         "modules": f["modules"], "target": f["target"]}
    if case.get("cli_model"):
        p["config"] = case["cli_model"]
    p["project"] = project_payload(case)
    return p


def primary_name(case, rel):
    """The module name a generated file was created for (first registered)."""
    return next(n for n, i in case["names"].items() if i["file"] == rel)


def project_payload(case):
    """The project as the edge model (RattrModel/ImportEdges.lean) takes it, all by construction: the
    dotted names that are modules, and per generated file its name, whether it is an `__init__.py`, and
    its import statements as data (level, module part, imported name)."""
    blocks = case.get("blocks") or {}
    return {"exists": [n for n, i in case["names"].items() if i["kind"] != "missing"],
            "files": [dict({"base": primary_name(case, rel), "isInit": rel.endswith("/__init__.py"),
                            "stmts": [dict(sy["stmt"]) for sy in case["symbols"][rel]]},
                           **({"blocks": blocks[rel]["tree"]} if rel in blocks else {}))
                      for rel in case["files"]]}


def package_of_rel(rel):
    parts = rel.split("/")[1:-1]
    return ".".join(parts)


def check_edges(res, case, obs, mo, shown):
    """The edge stage: Lean `Edges.qualified` / `Edges.moduleName` (derive_absolute_module_name + the
    right-to-left prefix search, on the statements the generator wrote) vs the Import symbols of the
    root context rattr really compiled for every analysed file; the Lean spec (`pyQualified`,
    `pyTarget`) vs importlib.util.resolve_name and the generator's intention; the theorem's instance."""
    import importlib.util
    edges = mo.get("edges")
    if edges is None:
        return True
    rels = list(case["files"])
    by_rel = dict(zip(rels, edges))
    # block positions: the Lean model of register_stmts (`Blocks.regL`) on the file's block tree vs the
    # harness' mirror (the order case["symbols"] was written in); the theorems' instances
    for rel, bo in zip(rels, mo.get("blockOrders") or []):
        if bo is None:
            continue
        w = case["written"][rel]
        if bo["reg"] != case["blocks"][rel]["reg"] or bo["written"] != list(range(len(w))):
            res.internal_errors.append({"what": "Lean Blocks.regL / writtenL != the harness' mirror of register_stmts",
                                        "file": rel, "lean": bo, "harness": case["blocks"][rel], "case": shown})
            return None
        if bo["descended"] != (not any(opaque_of(sy["pos"]) for sy in w)):
            res.internal_errors.append({"what": "Lean Blocks.descendedL != the positions by construction",
                                        "file": rel, "lean": bo, "case": shown})
            return None
        if bo["descended"] and sorted(bo["reg"]) != bo["written"]:
            res.internal_errors.append({"what": "theorem C12_every_block_position_is_an_edge contradicted by the driver",
                                        "file": rel, "lean": bo, "case": shown})
            return None
        if not set(bo["reg"]) <= set(bo["written"]):
            res.internal_errors.append({"what": "theorem C12_registered_are_written contradicted by the driver",
                                        "file": rel, "lean": bo, "case": shown})
            return None
        res.count("theorem-instance:C12_every_block_position_is_an_edge" if bo["descended"]
                  else "block-tree-with-undescended-statement-class")
        for sy in w:
            for part in sy["pos"].split("/"):
                res.count("import-position:" + part)
            if "/" in sy["pos"]:
                res.count(f"import-position:nested-depth{sy['pos'].count('/') + 1}")
    for rel in rels:
        for sy, e in zip(case["symbols"][rel], by_rel[rel]):
            st = sy["stmt"]
            if not e["wf"]:
                res.internal_errors.append({"what": "generated import statement outside the fragment of C12_edge_like_python",
                                            "file": rel, "stmt": st, "case": shown})
                return None
            if not e["same"]:
                res.internal_errors.append({"what": "theorem C12_edge_like_python contradicted by the driver",
                                            "file": rel, "stmt": st, "edge": e, "case": shown})
                return None
            # the Lean spec against CPython itself (and against what the generator meant)
            if st["level"] > 0:
                mod = importlib.util.resolve_name("." * st["level"] + (st["module"] or ""), package_of_rel(rel))
            else:
                mod = st["module"]
            want_q = mod + ("." + st["name"] if st["name"] else "")
            if e["pyQualified"] != want_q or want_q != sy["qualified"] or e["pyModule"] != sy["intended"]:
                res.internal_errors.append({"what": "Lean Edges.pyQualified / pyTarget != importlib.util.resolve_name / the generator's intention",
                                            "file": rel, "stmt": st, "lean": e, "importlib": want_q, "symbol": sy,
                                            "case": shown})
                return None
    res.count("theorem-instance:C12_edge_like_python")
    # correspondence: per analysed file, the Import symbols rattr built vs the model's
    ok = True
    for ev, syms in zip(obs.get("events_real", []), obs.get("file_syms", [])):
        rel = ev.replace("sp/site-packages/", "sp/", 1)
        if rel not in by_rel:
            continue            # a real stdlib file (level 3)
        model = [[e["qualified"], e["module"]] for e in by_rel[rel]]
        for sy in case["symbols"][rel]:
            st = sy["stmt"]
            if st["level"] > 0:
                res.count(f"edge:relative:level{st['level']}:{'init' if rel.endswith('/__init__.py') else 'module'}"
                          f":package-depth{len(rel.split('/')) - 2}:{sy['form']}")
            else:
                res.count("edge:absolute:" + sy["form"])
        if syms != model:
            ok = False
            res.disagreements.append({"stage": "edges (import statement -> Import symbol)", "file": rel,
                                      "case": shown, "impl": syms, "model": model})
    # the graph the BFS model ran on (per-module facts by the real locator) has the model's edges
    facts = obs["facts"]
    real_of = {os.path.realpath(os.path.join(case["_root"], "sp/site-packages" + r[2:] if r.startswith("sp/") else r)): r
               for r in rels}
    rows = [(tgt_key(case), facts["target"])] + \
           [(real_of.get(m.get("real")), m["imports"]) for m in facts["modules"]]
    for rel, imps in rows:
        if rel is None:
            continue
        model = [e["module"] for e in by_rel[rel]]
        if [i["target"] for i in imps] != model:
            ok = False
            res.disagreements.append({"stage": "edges (model's targets vs the real locator on the expected names)",
                                      "file": rel, "case": shown, "impl": [i["target"] for i in imps], "model": model})
    return ok


def graph_shape(facts):
    """cycle / diamond detection on the real-facts graph (for the distribution only)."""
    adj = {m["name"]: [i["target"] for i in m["imports"] if i["target"]] for m in facts["modules"]}
    indeg = {}
    for n, ds in adj.items():
        for d in set(ds):
            indeg[d] = indeg.get(d, 0) + 1
    for d in {i["target"] for i in facts["target"] if i["target"]}:
        indeg[d] = indeg.get(d, 0) + 1
    cyc = False
    color = {}

    def dfs(n):
        nonlocal cyc
        color[n] = 1
        for d in adj.get(n, []):
            if color.get(d) == 1:
                cyc = True
            elif d not in color:
                dfs(d)
        color[n] = 2

    for n in adj:
        if n not in color:
            dfs(n)
    return cyc, any(v >= 2 for v in indeg.values())


CASE_KEYS = ("target_file", "level", "patterns", "extra_path", "links", "sp_spell", "files", "symbols", "names", "channel", "argv",
             "aux_files", "cli_model", "toml_selected", "written", "blocks", "nest")


def evaluate(res, case, obs, mo, cli=None):
    """Correspondence, self-checks and the property oracle for one case."""
    shown = {k: case[k] for k in CASE_KEYS if k in case}
    lvl = case["level"]
    res.count(f"level:{lvl}")
    res.count("patterns:" + ("none" if not case["patterns"] else "some"))
    ch = case.get("channel", {"level_via": "direct"})
    via = ch["level_via"]
    res.count("channel:level:" + via)
    res.count(f"channel:level:{via}:f{lvl}")
    if via != "direct":
        if case["patterns"]:
            res.count("channel:patterns:" + ch.get("patterns_via", "?"))
        if case.get("aux_files"):
            res.count("channel:toml-spelling:" + ch.get("toml_spelling", "plain"))
    for e in case["extra_path"]:
        res.count("layout:subdir-on-path:" + (e["spell"] if isinstance(e, dict) else "real"))
    for l in case.get("links", []):
        res.count("layout:symlink:" + ("via-root" if l["at"] == "via" else "site-packages" if l["at"] == "vendor"
                                       else "file-in-search-dir" if l["at"].endswith(".py") else "dir-in-search-dir"))
    if obs["outcome"] == "config-rejected":
        # rattr refused a configuration every documented rule accepts: nothing was analysed at all
        res.count("impl-outcome:config-rejected")
        res.violations.append({"signature": f"other:valid-configuration-rejected:{via}", "case": shown,
                               "detail": obs.get("config_detail")})
        return
    facts = obs["facts"]
    if facts["outside"]:
        res.skipped_outside_fragment += 1
        res.count("skipped:stdlib-module-with-imports")
        return
    # the generator's expectation of the target's Import symbols must be what rattr built
    exp_q = [s["qualified"] for s in case["symbols"][tgt_key(case)]]
    if lvl > 0 and obs["outcome"] in ("ok",) and obs["queue0"] != exp_q:
        # the root context of the target is not what the generator (and the model) expect. If the property
        # oracle — which knows nothing of that expectation — objects to the run, that is the verdict;
        # otherwise the case is outside the fragment.
        vs = judge(case, obs)
        for v in vs:
            res.count("verdict:" + v["signature"].split(":")[0])
            res.violations.append({"signature": v["signature"], "case": shown, "detail": v,
                                   "impl": {k: obs.get(k) for k in ("outcome", "keys", "events", "results", "queue0")},
                                   "expected_import_symbols_of_target": exp_q,
                                   "spec_reach": sorted(oracle_reach(case))})
        if not vs:
            res.skipped_outside_fragment += 1
            res.count("skipped:import-symbols-differ-from-generator-expectation")
        return
    if "__error__" in mo:
        res.internal_errors.append({"what": "driver error", "detail": mo, "case": shown})
        return
    if check_edges(res, case, obs, mo, shown) is None:
        return
    cyc, dia = graph_shape(facts)
    res.count(f"graph:modules={min(len(facts['modules']), 9)}")
    if cyc:
        res.count("graph:cycle")
    if dia:
        res.count("graph:diamond")
    for _, r in mo["skipped"]:
        res.count("rung:" + r)
    for n in mo["analysed"]:
        res.count("analysed-class:" + mo["classes"].get(n, "?"))
    res.count("model-outcome:" + mo["outcome"])
    res.count("impl-outcome:" + obs["outcome"] + ("" if obs.get("results", "ok") == "ok" else "+results-" + obs["results"].split(":")[1]))
    for h, v in mo["hyps"].items():
        if v is False:
            res.count("hyp-false:" + h)

    # --- self-checks (internal errors)
    fl = obs["flags"]
    if not mo["specFlagsAgree"] or fl["truthy"] != (fl["loc"] or fl["pip"] or fl["stdlib"]):
        # the running implementation's flags differ from the documented levels: a property matter,
        # reported through the oracle below (and Tie A); not an internal error.
        res.count("flags-differ-from-documented-level")
    real_imports = {m["name"]: [i["target"] for i in m["imports"]] for m in facts["modules"]}
    mods = {m["name"]: m for m in facts["modules"]}

    def perm_real(n):
        m = mods.get(n)
        if m is None:
            return False
        return bool(lvl >= 1 and m["origin"] is not None and not m["excluded"]
                    and (not m["inPip"] or lvl >= 2) and (not m["inStdlib"] or lvl >= 3))

    py_reach = closure(real_imports, [i["target"] for i in facts["target"]], perm_real)
    if set(mo["specReach"]) != py_reach or len(set(mo["specReach"])) != len(mo["specReach"]):
        res.internal_errors.append({"what": "Lean Spec.reach != Python closure on the same facts",
                                    "lean": mo["specReach"], "python": sorted(py_reach), "case": shown})
        return
    if mo["outcome"] == "outOfFuel":
        res.internal_errors.append({"what": "model ran out of fuel at fuelBound (contradicts C12_terminates)",
                                    "case": shown})
        return
    hy = mo["hyps"]
    if mo["outcome"] == "done" and hy["flagsOK"] and hy["originInjective"] and hy["noOverBlacklist"] \
            and hy["exclusionHonoured"] and mo["specFlagsAgree"]:
        if set(mo["analysed"]) != set(mo["specReach"]):
            res.internal_errors.append({"what": "theorem C12_partial contradicted by the driver", "model": mo,
                                        "case": shown})
            return
        res.count("theorem-instance:C12_partial")
    if hy.get("sectionsAgree") is not None:
        # the model of is_in_stdlib (isort section -> verdict) vs the real is_in_stdlib, per module
        secs = {m["name"]: m.get("section") for m in facts["modules"]}
        for n, sct in secs.items():
            res.count("isort-section:" + str(sct))
        if not hy["sectionsAgree"]:
            res.disagreements.append({"stage": "classification (is_in_stdlib of the isort section)", "case": shown,
                                      "impl": {m["name"]: [m.get("section"), m["inStdlib"]] for m in facts["modules"]},
                                      "model": "inStdlib = section in (STDLIB, FUTURE)"})
        elif mo["specFlagsAgree"]:
            if lvl < 3 and any(secs.get(n) in ("FUTURE", "STDLIB") for n in mo["analysed"]):
                res.internal_errors.append({"what": "theorem C12_stdlib_section_only_at_level3 contradicted by the driver",
                                            "model": mo, "case": shown})
                return
            res.count("theorem-instance:C12_stdlib_section_only_at_level3")
    if hy.get("originsCanonical") is not None:
        if hy["originsCanonical"] and not mo["realNodup"]:
            res.internal_errors.append({"what": "theorem C12_once_real contradicted by the driver", "model": mo,
                                        "case": shown})
            return
        if hy["originsCanonical"]:
            res.count("theorem-instance:C12_once_real")
    # --- configuration stage: the Lean model of parse_arguments + Arguments.follow_imports on the
    # case's (TOML files, argv) vs what the real parse_arguments produced
    cm = mo.get("config")
    if cm is not None:
        res.count("cli-model:" + cm["outcome"])
        im_cfg = {"outcome": "ok", "level": obs["impl_level"], "patterns": obs["impl_patterns"],
                  "flags": {k: fl[k] for k in ("loc", "pip", "stdlib")}}
        mm_cfg = {k: cm.get(k) for k in ("outcome", "level", "patterns", "flags")}
        if im_cfg != mm_cfg:
            res.disagreements.append({"stage": "configuration", "case": shown, "impl": im_cfg, "model": mm_cfg})
        if cm.get("level") == lvl and cm.get("patterns") == list(case["patterns"]):
            res.count("cli-model:level-and-patterns-as-intended")
        else:
            res.count("cli-model:DIFFERS-from-intended")
        if cm.get("theoremLevel") is not None:
            if cm["theoremLevel"] != cm.get("level"):
                res.internal_errors.append({"what": "theorem C12_configured_level contradicted by the driver",
                                            "config": cm, "case": shown})
                return
            res.count("theorem-instance:C12_configured_level")
    elif via in NONCANONICAL:
        res.count("cli-model:outside-fragment(argparse tokeniser)")
    if cli is not None:
        a = obs["outcome"]
        if a == "ok" and obs.get("results", "ok") != "ok":
            r = obs["results"].split(":")
            a = "fatal" if r[0] == "fatal" else "crash:" + r[1]
        b = cli["outcome"]
        same = (a == b) and (a != "ok" or sorted(obs["keys"]) == cli["keys"])
        res.count("cli-crosscheck:" + ("same" if same else "DIFFERENT"))
        if not same:
            res.internal_errors.append({"what": "in-process worker and real CLI disagree", "inproc": a,
                                        "inproc_keys": obs.get("keys"), "cli": cli, "case": shown})
            return

    # --- correspondence: model vs implementation
    if obs["outcome"] == "ok":
        im = {"outcome": "done", "analysed": obs["keys"], "pops": obs["pops"], "unique": obs["unique"],
              "unresolved": obs["unresolved_msgs"],
              "events": obs["events"][:-1]}
    elif obs["outcome"] == "fatal":
        im = {"outcome": "fatal"}
    else:
        im = {"outcome": "crash"}
    if mo["outcome"] == "done":
        origin_rel = {m["name"]: (os.path.relpath(m["origin"], str(case["_root"])) if m["origin"] and m["origin"].startswith(str(case["_root"])) else m["origin"])
                      for m in facts["modules"]}
        mm = {"outcome": "done", "analysed": mo["keys"], "pops": mo["pops"], "unique": len(mo["seen"]),
              "unresolved": sum(1 for _, r in mo["skipped"] if r in ("unresolved", "noOrigin")),
              "events": [origin_rel.get(n) for n in mo["analysed"]]}
    else:
        mm = {"outcome": mo["outcome"]}
    if mm != im:
        res.disagreements.append({"case": shown, "impl": im, "model": mm, "facts": facts})

    # --- property oracle on the implementation
    if obs["outcome"].startswith("crash"):
        # an admitted module whose origin cannot be read (C07-K8: 'frozen' / 'built-in' / .so at
        # level 3) — outside C12's fragment, counted; any other crash of this stage is reported.
        msg = obs.get("crash_msg", "")
        if lvl == 3 and obs["outcome"] in ("crash:FileNotFoundError", "crash:UnicodeDecodeError") and \
                any(k in msg for k in ("frozen", "built-in", ".so", "codec")):
            res.skipped_outside_fragment += 1
            res.count("skipped:level3-unreadable-stdlib-origin(C07-K8)")
        else:
            res.violations.append({"signature": "other:import-stage-" + obs["outcome"], "case": shown,
                                   "detail": msg})
        return
    if obs["outcome"] == "fatal":
        # rattr stopped before analysing anything. By construction that is its answer to an import of a
        # module that does not exist (kind `missing`); a project in which every imported module exists
        # must be analysed ("every permitted module reachable ... is analysed")
        if any(i["kind"] == "missing" for i in case["names"].values()):
            res.count("verdict:fatal-with-unlocatable-module-in-project")
        else:
            res.count("verdict:other")
            res.violations.append({"signature": "other:fatal-although-every-imported-module-exists", "case": shown,
                                   "detail": {"spec_reach": sorted(oracle_reach(case))},
                                   "impl": {"outcome": "fatal"}})
        return
    for m in facts["modules"]:
        mis = misclassification(case, obs, m["name"])
        if mis:
            res.count("classifier-differs-from-ground-truth:" + mis)
        res.count("module-shape:" + kind_indep(case, m["name"]) + ":" + shape_of(case, m["name"]))
    vs = judge(case, obs)
    if not vs:
        res.count("verdict:holds")
    for v in vs:
        res.count("verdict:" + v["signature"].split(":")[0])
        res.violations.append({"signature": v["signature"], "case": shown, "detail": v,
                               "impl": {k: obs.get(k) for k in ("outcome", "keys", "events", "results")},
                               "spec_reach": sorted(oracle_reach(case))})


def run(tier, seed, build):
    res = common.Result(PID)
    res.rule = ("generated project trees: 1-3 local modules, optional package (2 submodules; optionally also "
                "importable under a second top-level name), optional nested local package and local namespace "
                "package, 0-7 fake-site-packages modules (plain module, package, nested package, modules inside a "
                "PEP 420 namespace package without __init__.py), real tiny stdlib "
                "modules, built-in/frozen stdlib modules, rattr itself, unlocatable modules; 0-4 imports per file "
                "in 7 statement forms; x level 0..3 x 0-3 exclusion patterns; plus every import graph over "
                "{target, lm0, pq1} (quick) / {target, lm0, lm1, pq1} (thorough) and over {target, lm0, nsq.inner.mod "
                "(pip, in a namespace package)} x 4 levels x 3 pattern sets. The oracle's module classes are fixed "
                "by construction (where the generator put the file), never taken from rattr's classifiers. "
                "Each random case is delivered through a random configuration channel (13 ways of setting the level x 4 "
                "ways of giving the patterns x 9 TOML spellings, through the real parse_arguments on real files); a "
                "channel matrix (every channel x level 0..3 on a project with a local chain, a pip and a stdlib module) "
                "runs in-process and through the real CLI. Alias layouts: a sub-directory also on the search path in 5 "
                "spellings (real, through a symlink, ./x, x/../x, x/), a symlinked directory / file inside a search dir, "
                "site-packages behind a symlink; second name imported by the target or by a followed import; analyses "
                "counted per real file (os.path.realpath). "
                "Stdlib universe (class of each name established per run by importlib, never by rattr): __future__ "
                "(isort section FUTURE; one / several features, every import form), frozen, built-in, extension, "
                "source modules and packages, dotted names (os.path, collections.abc, importlib.metadata, ...), "
                "imported by the target and by followed local / pip modules, at every level (level 3 only where nothing "
                "can be followed behind the module) and in the channel matrix; ground truth: sys.stdlib_module_names. "
                "Relative imports: every level 1..3 x __init__.py / module of a package nested 1..4 deep x 4 statement "
                "shapes x importing file followed / being the target itself, with a same-named module in every package "
                "of the chain and at the top level (ground truth: importlib.util.resolve_name on the importing file's "
                "package), the chain also inside site-packages and with the reached module excluded; 40 % of the random "
                "projects contain such a chain (1-4 packages, local or pip) with relative imports of every level its "
                "files allow. Per analysed file the Import symbols rattr built are compared with the Lean edge model. "
                "Block positions: import statements inside if/elif/else, try/except/else/finally, with, for/else, "
                "while/else (nested up to 4 deep; also match, try/except*, class bodies) in the target and in followed "
                "modules: a corpus of 16 templates x target / followed import x statement form, and half of the random "
                "projects (60 % of their files); every written import is an edge of the oracle, the registration order "
                "is the Lean model Blocks.regL. Configuration discovery: 15 layouts of nested project roots (inner "
                "pyproject.toml at the cwd / its parent / grand-parent below .git, .git file, .hg, .svn, another "
                "project's pyproject.toml; nearest root without [tool.rattr]) x level 0..3 in the channel matrix "
                "(in-process and real CLI) and among the random channels. "
                "non-trivial = distinct case whose target imports at least one locatable module")
    rng = random.Random(seed)
    n_random, n_cli = (360, 16) if tier == "quick" else (800, 30)
    cases = list(corpus_cases()) + list(alias_cases()) + list(channel_cases()) + list(stdlib_universe_cases()) \
        + list(relative_cases()) + list(block_cases())
    N_CORPUS = len(cases)
    if tier == "quick":
        cases += list(enumerated_cases(["target", "lm0", "pq1"]))
    else:
        cases += list(enumerated_cases(["target", "lm0", "lm1", "pq1"]))
    # the same with the pip node inside a PEP 420 namespace package
    cases += list(enumerated_cases(["target", "lm0", "nsq.inner.mod"]))
    res.extra["exhaustive"] = True
    res.extra["exhaustive_cases"] = len(cases) - N_CORPUS
    res.extra["random_cases"] = n_random
    cases += [set_channel(random_case(rng), random_channel(rng)) for _ in range(n_random)]
    n_enum = len(cases) - n_random
    cli_idx = set(rng.sample(range(n_enum, len(cases)), min(n_cli, n_random))) | set(rng.sample(range(N_CORPUS, n_enum), 2)) \
        | {i for i in range(N_CORPUS) if cases[i]["shape"].get("cli", True)}

    base = os.path.realpath(tempfile.mkdtemp(prefix="c12_"))
    assert "site-packages" not in base and not base.startswith(("/verif", "/repo"))
    for d in [Path(base), *Path(base).parents]:
        # find_project_root() walks up from the cwd: nothing above the generated trees may be a root
        if any((d / m).exists() for m in ("pyproject.toml", ".git", ".hg", ".svn")):
            res.internal_errors.append({"what": f"project-root marker in {d}: the TOML channels would read it"})
            return res
    kept, observations, futures = [], [], {}
    # the real-CLI runs overlap with the in-process loop (independent processes on the same files)
    ex = ThreadPoolExecutor(max_workers=6)
    import time
    t0 = time.time()
    try:
        for idx, case in enumerate(cases):
            pr = Project(base, idx, case)
            case["_root"] = str(pr.root)
            if idx in cli_idx:
                kept.append((idx, pr))
                futures[idx] = ex.submit(run_cli, pr)
            try:
                obs = run_impl(pr)
            except Exception as e:  # harness failure, not rattr's
                res.internal_errors.append({"what": "run_impl failed", "detail": repr(e)[:300]})
                observations.append(None)
                continue
            finally:
                if idx not in cli_idx:
                    pr.cleanup()
            observations.append(obs)
        t1 = time.time()
        cli_out = {i: f.result() for i, f in futures.items()}
        # informational only (never a verdict)
        res.extra["phase_s"] = {"in_process_loop": round(t1 - t0, 1), "waiting_for_cli_after_loop": round(time.time() - t1, 1),
                                "cli_runs": len(futures)}
    finally:
        ex.shutdown(wait=True, cancel_futures=True)
        shutil.rmtree(base, ignore_errors=True)

    model = common.Model()
    todo = [(i, c, o) for i, (c, o) in enumerate(zip(cases, observations)) if o is not None]
    outs = model.batch([("imports", model_payload(c, o)) for _, c, o in todo])
    for (i, case, obs), mo in zip(todo, outs):
        res.evaluations += 1
        if any(x["target"] for x in obs["facts"]["target"]):
            res.nontrivial.add(common.digest({k: case.get(k) for k in ("level", "patterns", "files", "extra_path", "links",
                                                                       "sp_spell", "argv", "aux_files", "target_file")}))
        res.sample({"level": case["level"], "patterns": case["patterns"], "files": case["files"],
                    "impl_keys": obs.get("keys"), "impl_outcome": obs["outcome"]}, cap=4)
        evaluate(res, case, obs, mo, cli_out.get(i))
    res.assumptions = [
        "isort.place_module, the site-packages regex and re.fullmatch are trusted classifiers: their verdicts are per-module parameters of the model",
        "[interp] a module is identified by its name (the key of import_irs); 'matching an --exclude-import pattern' = re.fullmatch(pattern, module name)",
        "[interp] parent packages of a followed submodule need not be analysed; star imports are outside the fragment (expand_starred_imports parses the starred module whatever the level)",
        "ground truth for 'stdlib module': the top-level name is in sys.stdlib_module_names (this includes __future__); isort's section of a name is a per-module parameter of the model (Tie A: the five sections of the installed isort and is_in_stdlib's verdict on each)",
        "isort's FIRSTPARTY section arises only through the real CLI (isort's src_paths = cwd of the process when isort is imported = the project dir); in-process local modules are THIRDPARTY; LOCALFOLDER (relative names) never reaches is_in_stdlib. Both are non-stdlib verdicts (Tie A samples)",
        "[interp] 'analysed exactly once' counts analyses per REAL file (os.path.realpath of what was opened): one file under two module names must be read and analysed once, and both names must be usable (keys of import_irs)",
        "[interp] the follow level / patterns in effect are what the documented sources say: last -f/--follow-imports on the command line, else follow-imports of the TOML table that applies (-c file if it exists, else the project's pyproject.toml), else 1; exclusion patterns accumulate (TOML then command line)",
        "argparse's tokeniser (--follow-imports=N, -fN) is outside the Lean CLI model: those channels are judged by the oracle only",
        "[interp] the target file is analysed once as the target and at most once more as an import when an import cycle leads back to it",
        "level-3 runs that reach a built-in / frozen / extension stdlib module crash in read() (C07-K8); counted as outside the fragment",
        "ground truth for the module a relative import statement reaches: importlib.util.resolve_name(dots + module part, package of the importing file), then the longest prefix of <that>.<imported name> that is a module of the generated project; the Lean spec Edges.pyQualified / pyTarget is compared with it on every statement of every case",
        "[interp] a run that ends in rattr's `fatal` although every module imported anywhere in the project exists is a violation ('every permitted module reachable ... is analysed'): signature other:fatal-although-every-imported-module-exists; with an unlocatable module in the project a fatal is rattr's documented answer and is not judged",
        "[interp] every import statement at module level is an edge of the import graph wherever it stands (the branches of if / try / with / for / while / match, try-except*, a class body): Python executes it when it imports the module. rattr rejects imports inside FUNCTIONS loudly (fatal 'imports must be at the top level'); those are never generated",
        "the ORDER in which a file's Import symbols are registered (and so enqueued) is rattr's (a try statement registers body, else, finally, then the handlers): harness mirror `registered_order`, cross-checked per case with the Lean model Blocks.regL; the oracle uses only the SET of written imports",
        "[interp] the project's pyproject.toml is that of the NEAREST directory at or above the working directory that has a pyproject.toml, .git (directory or file), .hg/ or .svn/ (find_project_root's rule; README's configuration section does not say how the file is found); if that root has no pyproject.toml or no [tool.rattr] table, no TOML applies. A pyproject.toml of an outer project is never read",
        "the edge model takes the importing file's module name (derive_module_name_from_path) by construction — the name the file was generated for; C13 covers the path -> name round trip. Relative imports are not written in files reachable under a second PACKAGE name (symlinked package directory)",
    ]
    return res


def replay(path):
    """Re-run one stored case on the implementation (in-process and real CLI), the model and the oracle."""
    j = json.load(open(path))
    case = j["case"]
    case.setdefault("shape", {})
    print(json.dumps({k: case.get(k) for k in ("target_file", "level", "patterns", "extra_path", "links", "sp_spell", "channel", "argv")}))
    for rel, src in list(case["files"].items()) + list(case.get("aux_files", {}).items()):
        print(f"--- {rel}\n{src}")
    base = os.path.realpath(tempfile.mkdtemp(prefix="c12r_"))
    try:
        pr = Project(base, 0, case)
        case["_root"] = str(pr.root)
        obs = run_impl(pr)
        cli = run_cli(pr)
    finally:
        shutil.rmtree(base, ignore_errors=True)
    mo = common.Model().batch([("imports", model_payload(case, obs))])[0]
    res = common.Result(PID)
    evaluate(res, case, obs, mo, cli)
    print("implementation (in-process):", json.dumps({k: obs.get(k) for k in ("outcome", "keys", "events", "events_real", "results", "pops", "unique", "impl_level", "impl_patterns")}))
    print("model (configuration stage):", json.dumps(mo.get("config")) if "__error__" not in mo else None)
    print("implementation (CLI):", json.dumps(cli))
    if "__error__" not in mo and mo.get("edges") is not None:
        print("implementation (Import symbols per analysed file):", json.dumps(list(zip(obs.get("events_real", []), obs.get("file_syms", [])))))
        print("model (edges: qualified name, module, Python's module per statement):",
              json.dumps({rel: [[e["qualified"], e["module"], e["pyModule"]] for e in es]
                          for rel, es in zip(case["files"], mo["edges"]) if es}))
    print("model:", json.dumps({k: mo.get(k) for k in ("outcome", "analysed", "skipped", "pops", "hyps")} if "__error__" not in mo else mo))
    print("spec (independent oracle) reach:", sorted(oracle_reach(case)))
    print("spec (Lean, real facts) reach:", mo.get("specReach"))
    print("violations:", json.dumps([{"signature": v["signature"], "detail": v["detail"]} for v in res.violations], default=str))
    print("disagreements:", len(res.disagreements), "internal_errors:", len(res.internal_errors))
    return 0

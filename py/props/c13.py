"""C13 — module names resolve the way Python's import system resolves them.

Tie B: the real `rattr.module_locator.util` functions run inside synthesised package trees (cwd and
`sys.path[0]` = tree root, caches cleared between cases) vs the Lean model `Locator.*` given the same
tree (as lists of relative file paths per search root) and the stdlib classification facts taken
from the real `is_in_stdlib` / stdlib finder.  Oracles the suite never consults:
`importlib.util.resolve_name` for (a), the file system itself (`os.path.isfile` along the search
path) for (b) and (c); the Lean specs `Spec.pyResolveName`, `Spec.longestPrefix`, `Spec.firstMatch`
are self-checked against those oracles (mismatch = internal error, exit 2).
"""
from __future__ import annotations

import importlib.util
import itertools
import json
import os
import random
import shutil
import sys
import tempfile
from pathlib import Path

import common
import impl
from props import c13links, c13walk

from rattr.config.state import enter_file
from rattr.module_locator import util as U

PID = "C13"
TABLES = ["C13"]

TOP = ["pa", "pb", "json"]      # "json": a name isort classifies as stdlib and that is already imported
INNER = ["pa", "pb"]            # the same names at every level: clashes between levels
MISSING = "zz"

SIG_MEMO = "memo-clash:module-and-package-share-dotted-name"
SIG_STDLIB = "stdlib-named-local-module-not-located"
SIG_NSDIR = "module-shadowed-by-non-package-directory"
SIG_PYPKG = "package-named-py-loses-its-last-component"

# fixed second search root (appended to sys.path) used by the two-root configurations
ROOT2_FILES = [["pa.py"], ["pb", "__init__.py"], ["pb", "ma.py"], ["zq.py"]]


# ------------------------------------------------------------------ generation

def entries(budget):
    r = [("m", None)]
    if budget > 0:
        for sub in dir_contents(budget - 1, INNER):
            r.append(("p", sub))
            r.append(("b", sub))
    return r


def dir_contents(budget, names, width=2):
    """Every directory content with <= width entries; an entry is a module `n.py`, a package
    `n/__init__.py` (+ content) or both at once (the clash)."""
    opts = entries(budget)
    yield {}
    for n in names:
        for e in opts:
            yield {n: e}
    if width >= 2:
        for n1, n2 in itertools.combinations(names, 2):
            for e1 in opts:
                for e2 in opts:
                    yield {n1: e1, n2: e2}


def random_tree(rng, budget, names):
    k = rng.choice([1, 2, 2])
    out = {}
    for n in rng.sample(names, k):
        kind = rng.choice(["m", "p", "b", "p", "b"]) if budget > 0 else "m"
        out[n] = (kind, None if kind == "m" else random_tree_or_empty(rng, budget - 1))
    return out


def random_tree_or_empty(rng, budget):
    if rng.random() < 0.15:
        return {}
    return random_tree(rng, budget, INNER)


def files_of(content, prefix=()):
    out = []
    for n in sorted(content):
        kind, sub = content[n]
        if kind in ("m", "b"):
            out.append(list(prefix) + [n + ".py"])
        if kind in ("p", "b"):
            out.append(list(prefix) + [n, "__init__.py"])
            out.extend(files_of(sub, tuple(prefix) + (n,)))
    return out


# hand-written extras outside the enumerated family: directories without __init__.py
EXTRA_TREES = [
    [["pa.py"], ["pa", "data.txt"]],
    [["pa.py"], ["pa", "mb.py"]],
    [["pa", "__init__.py"], ["pa", "pb.py"], ["pa", "pb", "notes.txt"], ["pa", "ma.py"]],
    [["pb", "ma.py"]],
    # a package whose own name is `py` (found through the model: `longestName` strips ".__init__.py", then ".py")
    [["pa", "__init__.py"], ["pa", "py", "__init__.py"], ["pa", "py", "ma.py"], ["pa", "ma.py"]],
]


def own_name(f):
    """dotted name of a .py file relative to its root, and whether it is a package __init__"""
    if f[-1] == "__init__.py":
        return list(f[:-1]), True
    return list(f[:-1]) + [f[-1][:-3]], False


def py_files(files):
    return [f for f in files if f[-1].endswith(".py")]


def make_ops(files, rng, tier):
    pys = py_files(files)
    names = []
    for f in pys:
        n, _ = own_name(f)
        if n and n not in names:
            names.append(n)
    # relative targets: None, every suffix of a tree name, missing ones
    targets = [None]
    for n in names:
        for k in range(len(n)):
            if n[k:] not in targets:
                targets.append(n[k:])
    targets += [[MISSING], ["pa", MISSING]]
    ops = []
    for f in pys:
        n, is_init = own_name(f)
        depth = len(n) if is_init else len(n) - 1
        for level in range(1, depth + 3):
            for t in targets:
                ops.append({"k": "rel", "clear": True, "file": f, "abs": False, "level": level, "target": t})
        ops.append({"k": "rel", "clear": True, "file": f, "abs": True, "level": 1, "target": None})
        ops.append({"k": "rel", "clear": True, "file": f, "abs": True, "level": 2, "target": [MISSING]})
    # dotted qualified names
    qs = []
    for n in names:
        for q in (n, n + ["f"], n + ["f", "g"], n + [MISSING, "f"]):
            if q not in qs:
                qs.append(q)
    for q in ([MISSING], [MISSING, "pa"], [""], ["", "pa"], ["json", "f"], ["json", "decoder", "f"],
              ["json", MISSING], ["pa", ""], ["pb", "ma", "f"], ["zq", "f"]):
        if q not in qs:
            qs.append(q)
    for q in qs:
        ops.append({"k": "find", "q": q})
    for f in pys:
        ops.append({"k": "path", "file": f, "abs": False})
        ops.append({"k": "path", "file": f, "abs": True})
    # one session through a single cache: a shuffled selection of relative imports
    sess = []
    for f in pys:
        n, is_init = own_name(f)
        for level in (1, 2):
            for t in targets[:3]:
                sess.append({"k": "rel", "clear": False, "file": f, "abs": False, "level": level, "target": t})
    rng.shuffle(sess)
    if sess:
        sess[0] = dict(sess[0], clear=True)
    for i, o in enumerate(sess):
        o["session"] = i
    ops.extend(sess)
    return ops


# ------------------------------------------------------------------ environment (search roots, facts)

class World:
    """A scratch directory outside /verif and /repo holding the current tree (`t`) and the fixed second
    root (`r2`)."""

    def __init__(self):
        self.base = Path(os.path.realpath(tempfile.mkdtemp(prefix="c13v")))
        self.tree = self.base / "t"
        self.r2 = self.base / "r2"
        self.tree.mkdir()
        self.r2.mkdir()
        for f in ROOT2_FILES:
            p = self.r2.joinpath(*f)
            p.parent.mkdir(parents=True, exist_ok=True)
            p.write_text("")
        self.current = None
        self._facts = {}
        self._resolved = {}

    def close(self):
        shutil.rmtree(self.base, ignore_errors=True)

    def set_tree(self, files):
        key = common.canon(files)
        if key == self.current:
            return
        shutil.rmtree(self.tree)
        self.tree.mkdir()
        for f in files:
            p = self.tree.joinpath(*f)
            p.parent.mkdir(parents=True, exist_ok=True)
            p.write_text("")
        self.current = key

    def real_roots(self, two):
        """The documented search order: cwd (= sys.path[0]), rattr's root, sys.path[1:]; extant only.
        Computed here independently of `iter_python_path_dirs`."""
        cand = [str(self.tree), str(common.REPO)] + list(sys.path[1:])
        if two:
            cand.append(str(self.r2))
        return [Path(c) for c in cand if c and Path(c).exists()]

    def vocab_files(self, root, vocab):
        """files below `root` reachable through a top-level vocabulary name (all other names are never
        queried)"""
        out = []
        for n in vocab:
            p = root / (n + ".py")
            if p.is_file():
                out.append([n + ".py"])
            d = root / n
            if d.is_dir():
                for dp, dns, fns in os.walk(d):
                    dns.sort()
                    for fn in sorted(fns):
                        if fn.endswith((".pyc", ".pyo")):
                            continue
                        rel = Path(dp, fn).relative_to(root).parts
                        out.append(list(rel))
        return out

    def canon_origin(self, origin, roots):
        if origin is None:
            return None
        s = str(origin)
        key = tuple(str(r) for r in roots)
        resolved = self._resolved.get(key)
        if resolved is None:
            # the search roots themselves stay put while the trees below them change
            resolved = self._resolved[key] = [str(r.resolve()) for r in roots]
        for i, rs in enumerate(resolved):
            if s.startswith(rs + os.sep):
                return {"file": [i, list(Path(s).relative_to(rs).parts)]}
        return {"ext": s}

    def stdlib_fact(self, name, roots):
        """(is_in_stdlib(name), canonical result of the stdlib finder) from the real functions"""
        if name in self._facts:
            return self._facts[name]
        st = bool(U.is_in_stdlib(name))
        spec = None
        if st:
            top = name.split(".")[0]
            if top and top not in sys.modules:
                # the finder would import the parent package from sys.path (possibly from the tree)
                raise OutsideFragment(f"stdlib-classified name {name!r} whose top package is not imported")
            s = getattr(U, "__find_stdlib_module_spec_impl")(name)
            if s is not None:
                spec = {"name": s.name.split("."), "origin": self.canon_origin(s.origin, roots)}
        self._facts[name] = (st, spec)
        return self._facts[name]


class OutsideFragment(Exception):
    pass


def path_string(world, f, absolute):
    rel = "/".join(f)
    return str(world.tree / rel) if absolute else rel


def path_comps(s):
    return str(Path(s)).replace("/", ".").replace("\\", ".").split(".")


def candidate_names(ops, world):
    """every dotted name the model may ask the classification about (a superset)"""
    out = set()

    def prefixes(parts):
        for k in range(1, len(parts) + 1):
            out.add(".".join(parts[:k]))

    for o in ops:
        if o["k"] == "find":
            prefixes(o["q"])
            continue
        comps = [c for c in path_comps(path_string(world, o["file"], o["abs"]))]
        # suffixes of the longest possible name (before and after suffix removal: superset)
        stripped = comps[:]
        if stripped[-1:] == ["py"]:
            stripped = stripped[:-1]
        if stripped[-1:] == ["__init__"] and len(stripped) > 1:
            stripped = stripped[:-1]
        while stripped and stripped[0] == "":
            stripped = stripped[1:]
        for k in range(len(stripped)):
            b = stripped[k:]
            out.add(".".join(b))
            if o["k"] == "rel":
                for eff in range(0, len(b) + 1):
                    base = b[:len(b) - eff] if eff else b
                    full = (base or [""]) + (o["target"] or [])
                    prefixes(full)
    out.add("")
    return sorted(out)


# ------------------------------------------------------------------ implementation side

def canon_found(world, res, roots):
    name, spec = res
    if name is None and spec is None:
        return None
    return {"module": None if name is None else name.split("."),
            "spec": None if spec is None else {"name": spec.name.split("."), "origin": world.canon_origin(spec.origin, roots)}}


_LAST_FILE = [None]


def run_impl_op(world, o, roots):
    if o["k"] == "rel":
        if o["clear"]:
            # a fresh memo for every case; the file-system-dependent caches (pure functions of the tree)
            # are dropped whenever the importing file changes
            if _LAST_FILE[0] != (o["file"], o["abs"]):
                impl.clear_caches_fast()
                _LAST_FILE[0] = (o["file"], o["abs"])
            else:
                U.derive_absolute_module_name.cache_clear()
        p = Path(path_string(world, o["file"], o["abs"]))
        target = None if o["target"] is None else ".".join(o["target"])
        with enter_file(p):
            cur = impl.Config().state.current_file
            base = U.derive_module_name_from_path(cur)
            if base is None:
                return {"base": None, "abs": None, "found": None}
            a = U.derive_absolute_module_name(base, target, o["level"])
            found = U.find_module_name_and_spec(a)
        return {"base": base.split("."), "abs": a.split("."), "found": canon_found(world, found, roots)}
    impl.clear_caches_fast()
    _LAST_FILE[0] = None
    if o["k"] == "find":
        return {"found": canon_found(world, U.find_module_name_and_spec(".".join(o["q"])), roots)}
    if o["k"] == "path":
        p = Path(path_string(world, o["file"], o["abs"]))
        n = U.derive_module_name_from_path(p)
        spec = None
        if n is not None:
            s = U.find_module_spec_fast(n)
            if s is not None:
                spec = {"name": s.name.split("."), "origin": world.canon_origin(s.origin, roots)}
        return {"name": None if n is None else n.split("."), "spec": spec}
    raise ValueError(o)


# ------------------------------------------------------------------ independent oracles

_FS_MEMO = [None]      # a dict while one tree is being judged (the file system does not change meanwhile)


def fs_first_match(roots, name):
    """(root index, relative file) CPython's path finder would pick for a dotted name: first root,
    package before module; judged by the file system itself."""
    if not name or any(c == "" for c in name):
        return None
    memo = _FS_MEMO[0]
    if memo is not None:
        key = tuple(name)
        if key not in memo:
            memo[key] = _fs_first_match(roots, name)
        m = memo[key]
        return None if m is None else [m[0], list(m[1])]
    return _fs_first_match(roots, name)


def _fs_first_match(roots, name):
    for i, r in enumerate(roots):
        pk = r.joinpath(*name, "__init__.py")
        if pk.is_file():
            return [i, list(name) + ["__init__.py"]]
        md = r.joinpath(*name[:-1], name[-1] + ".py")
        if md.is_file():
            return [i, list(name[:-1]) + [name[-1] + ".py"]]
    return None


def fs_longest_prefix(roots, q):
    for k in range(len(q), 0, -1):
        m = fs_first_match(roots, q[:k])
        if m is not None:
            return q[:k], m
    return None, None


def py_resolve(own, is_init, level, target):
    package = ".".join(own if is_init else own[:-1])
    name = "." * level + (".".join(target) if target else "")
    try:
        return {"ok": importlib.util.resolve_name(name, package).split(".")}
    except ImportError as e:
        return {"err": "noParentPackage" if not package else "beyondTopLevel", "msg": str(e)}


def nsdir_shadow(roots, m):
    """the first match `m` is a module file whose stem is also a directory (without __init__.py)"""
    i, f = m
    if f[-1] == "__init__.py":
        return False
    return roots[i].joinpath(*f[:-1], f[-1][:-3]).is_dir()


def classify_locate(world, roots, name, match):
    """signature class when the file-system match of `name` is not what rattr returns"""
    if U.is_in_stdlib(".".join(name)) and match[0] == 0:
        return SIG_STDLIB
    if nsdir_shadow(roots, match):
        return SIG_NSDIR
    if name[-1] == "py" and match[1][-1] == "__init__.py":
        return SIG_PYPKG
    return None


# ------------------------------------------------------------------ one tree

def run_tree(world, files, two, ops, res, model_out, case_base):
    """Runs every op on the implementation, compares with the model outputs, applies the oracles."""
    world.set_tree(files)
    roots = world.real_roots(two)
    session_seen = []   # (key, isInit) of the session's earlier calls
    if two:
        sys.path.append(str(world.r2))
    _FS_MEMO[0] = {}
    try:
        with impl.in_dir(str(world.tree)):
            impl.reset_config(target=Path("target.py"))
            for idx, o in enumerate(ops):
                res.evaluations += 1
                case = dict(case_base, op=o)
                im = run_impl_op(world, o, roots)
                mo = model_out[idx] if isinstance(model_out, list) and idx < len(model_out) else {"__error__": str(model_out)[:300]}
                res.count("op:" + o["k"] + (":session" if "session" in o else ""))
                res.nontrivial.add(common.digest(case))
                if len(res.samples) < 6 and idx % 37 == 5:
                    res.sample({"case": case, "impl": im})
                judge(world, roots, o, im, mo, case, res, session_seen)
    finally:
        _FS_MEMO[0] = None
        if two:
            sys.path.remove(str(world.r2))


def judge(world, roots, o, im, mo, case, res, session_seen):
    viol = lambda sig, **kw: res.violations.append({"signature": sig, "case": case, "impl": im, **kw})
    if "__error__" in mo:
        res.disagreements.append({"case": case, "impl": im, "model": mo})
        mo = None
    if o["k"] == "rel":
        own, is_init = own_name(o["file"])
        py = py_resolve(own, is_init, o["level"], o["target"])
        if mo is not None:
            sp = mo["spec"]
            if ("ok" in py) != ("ok" in sp) or ("ok" in py and py["ok"] != sp["ok"]) or ("err" in py and py["err"] != sp["err"]):
                res.internal_errors.append({"what": "Spec.pyResolveName disagrees with importlib.util.resolve_name",
                                            "case": case, "python": py, "spec": sp})
                return
            mm = {k: mo[k] for k in ("base", "abs", "found")}
            if mm != im:
                res.disagreements.append({"case": case, "impl": im, "model": mm})
        res.count("python:" + ("resolves" if "ok" in py else py["err"]))
        clash = False
        if im["base"] is not None:
            key = (tuple(im["base"]), None if o["target"] is None else tuple(o["target"]), o["level"])
            clash = any(k == key and ii != is_init for k, ii in session_seen)
            if "session" in o:
                session_seen.append((key, is_init))
        if im["base"] != own:
            # (c) fails for the importing file: its derived module name is absent (RootContext raises
            # ValueError) or names another module; the relative import cannot be judged beyond that
            m = fs_first_match(roots, own)
            if m is not None and m == [0, o["file"]]:
                viol(classify_locate(world, roots, own, m) or "other:file-on-path-gets-wrong-module-name", python=py)
            else:
                res.count("verdict:wrong-name-but-not-first-match")
            return
        bad = None
        if "ok" in py:
            if im["abs"] != py["ok"]:
                bad = "relative-import-mis-resolved"
        else:
            if im["found"] is not None:
                bad = "escaping-relative-import-not-diagnosed"
        if bad is None:
            res.count("verdict:holds")
        elif clash:
            viol(SIG_MEMO, python=py, detail=bad)
        else:
            viol("other:" + bad, python=py)
        return
    if o["k"] == "find":
        exp_name, exp_match = fs_longest_prefix(roots, o["q"])
        malformed = any(c == "" for c in o["q"][1:])   # e.g. "pa.": not a qualified name; correspondence only
        if mo is not None:
            if mo["specLongest"] != exp_name or mo["specFirst"] != exp_match:
                res.internal_errors.append({"what": "Spec.longestPrefix/firstMatch disagree with the file system",
                                            "case": case, "fs": [exp_name, exp_match],
                                            "spec": [mo["specLongest"], mo["specFirst"]]})
                return
            if mo["found"] != im["found"]:
                res.disagreements.append({"case": case, "impl": im, "model": mo["found"]})
        got = im["found"]
        got_name = None if got is None else got["module"]
        got_origin = None if got is None or got["spec"] is None else got["spec"]["origin"]
        if malformed:
            res.count("find:malformed-query-correspondence-only")
            return
        res.count("find:" + ("none" if exp_name is None else f"prefix{len(exp_name)}of{len(o['q'])}"))
        if exp_name is None:
            if got is None:
                res.count("verdict:holds")
            else:
                viol("other:resolved-a-name-absent-from-the-search-path", expected=None)
            return
        if got_name == exp_name and got_origin == {"file": exp_match}:
            res.count("verdict:holds")
            return
        # find the first prefix (longest first) on which rattr and the file system differ
        sig = None
        for k in range(len(o["q"]), 0, -1):
            m = fs_first_match(roots, o["q"][:k])
            if m is not None:
                sig = classify_locate(world, roots, o["q"][:k], m)
                break
        viol(sig or "other:longest-prefix-differs", expected={"module": exp_name, "origin": {"file": exp_match}})
        return
    if o["k"] == "path":
        own, _ = own_name(o["file"])
        m = fs_first_match(roots, own)
        if mo is not None:
            if {"name": mo["name"], "spec": mo["spec"]} != im:
                res.disagreements.append({"case": case, "impl": im, "model": mo})
        if m != [0, o["file"]]:
            res.count("verdict:roundtrip-precondition-false")   # the file is shadowed: Python cannot import it either
            return
        origin = None if im["spec"] is None else im["spec"]["origin"]
        if im["name"] is not None and origin == {"file": [0, o["file"]]}:
            res.count("verdict:holds")
            return
        viol(classify_locate(world, roots, own, m) or "other:derived-name-does-not-locate-the-file",
             expected={"file": [0, o["file"]]})
        return


def model_payload(world, files, two, ops):
    roots = world.real_roots(two)
    vocab = sorted(set(TOP + INNER + [MISSING, "zq", "ma", "mb"]))
    model_roots = [files] + [world.vocab_files(r, vocab) for r in roots[1:]]
    rows = []
    for n in candidate_names(ops, world):
        st, spec = world.stdlib_fact(n, roots)
        if st:
            rows.append([n.split("."), spec])
    mops = []
    for o in ops:
        if o["k"] == "find":
            mops.append({"k": "find", "q": o["q"]})
            continue
        comps = path_comps(path_string(world, o["file"], o["abs"]))
        if o["k"] == "path":
            mops.append({"k": "path", "comps": comps})
        else:
            own, is_init = own_name(o["file"])
            mops.append({"k": "rel", "clear": o["clear"], "comps": comps, "isInit": is_init, "level": o["level"],
                         "target": o["target"], "own": own})
    return {"roots": model_roots, "stdlib": rows, "ops": mops}


# ------------------------------------------------------------------ run

def tree_configs(tier, rng):
    cfgs = []
    d2 = [files_of(c) for c in dir_contents(1, TOP)]
    for i, fl in enumerate(d2):
        cfgs.append(("exh-depth2", fl, False))
    if tier == "quick":
        pick = rng.randrange(4)
        for i, fl in enumerate(d2):
            if i % 4 == pick:
                cfgs.append(("exh-depth2-tworoots-sampled", fl, True))
        for _ in range(40):
            cfgs.append(("rnd-depth3", files_of(random_tree(rng, 2, TOP)), rng.random() < 0.3))
    else:
        for fl in d2:
            cfgs.append(("exh-depth2-tworoots", fl, True))
        # depth 3, top-level width 1: exhaustive
        for c in dir_contents(2, TOP, width=1):
            fl = files_of(c)
            if any(len(f) >= 4 or (len(f) == 3 and f[-1] != "__init__.py") for f in fl):
                cfgs.append(("exh-depth3-width1", fl, False))
        for _ in range(1200):
            cfgs.append(("rnd-depth3", files_of(random_tree(rng, 2, TOP)), rng.random() < 0.3))
    for fl in EXTRA_TREES:
        cfgs.append(("extra-nsdir", fl, False))
        cfgs.append(("extra-nsdir", fl, True))
    return cfgs


def check_fragment(world):
    """Facts the harness relies on; a failure is a broken machine (exit 2), not a violation."""
    errs = []
    j = sys.modules.get("json")
    if j is None or str(world.base) in (getattr(j, "__file__", "") or ""):
        errs.append("stdlib json is not the imported json")
    roots = world.real_roots(True)
    for r in roots[1:-1]:
        for n in ["pa", "pb", MISSING, "zq", "ma", "mb"] + list(world.base.parts[1:]):
            if (r / n).exists() or (r / (n + ".py")).exists():
                errs.append(f"name {n!r} exists in search root {r}")
    real = [str(p.resolve()) for p in U.iter_python_path_dirs()]
    return errs


def run(tier, seed, build):
    res = common.Result(PID)
    res.rule = ("package trees over the names pa/pb (every level) + json (top level, stdlib-classified): every "
                "directory content with <= 2 entries, each a module, a package with __init__ or both at once; "
                "exhaustive for depth <= 2 (271 trees), in the thorough tier also with a second search root and "
                "exhaustive for depth 3 with one top-level entry, plus seeded random depth-3 trees; per tree every "
                "(importing file, level 1..depth+2, target in None + every suffix of a tree name + missing) triple, "
                "every qualified name (tree names, +member suffixes, missing, empty, dotted-leading), every file "
                "(relative and absolute path) and one shuffled session through a single cache; "
                "end-to-end walk: projects for every way a file is reached x relative-import level x form, in-process "
                "and through the CLI, a stratified selection of them realised behind symbolic links; "
                "symbolic-link stage: every link kind (package directory / sub-package / nested / module file / "
                "__init__.py linked off the search path, into another search root, aliased inside the tree, chained, "
                "absolute target, dangling, search root and second root spelled through a link) on a base tree + "
                "seeded random combinations, per layout every file (relative, below the spelled root, below the "
                "resolved root), every name, every located file entered as a followed import and as a star import "
                "x relative-import level x target. "
                "non-trivial = distinct (tree / layout, search roots, op)")
    rng = random.Random(seed)
    world = World()
    try:
        errs = check_fragment(world)
        if errs:
            res.internal_errors.append({"what": "environment outside the harness's assumptions", "detail": errs})
            return res
        cfgs = tree_configs(tier, rng)
        seen = set()
        work = []
        for kind, files, two in cfgs:
            key = common.canon([files, two])
            if key in seen:
                continue
            seen.add(key)
            ops = make_ops(files, random.Random(seed * 1000003 + len(work)), tier)
            work.append((kind, files, two, ops))
        import time
        marks = [("start", time.time(), time.process_time())]
        model = common.Model()
        # search-root check: the order handed to the model is the order the implementation iterates
        with impl.in_dir(str(world.tree)):
            sys.path.append(str(world.r2))
            try:
                real = [str(p.resolve()) for p in U.iter_python_path_dirs()]
            finally:
                sys.path.remove(str(world.r2))
        mine = [str(p.resolve()) for p in world.real_roots(True)]
        if real != mine:
            res.violations.append({"signature": "other:search-root-order-differs-from-documented", "case": {"documented": mine},
                                   "impl": real})
        reqs = []
        for kind, files, two, ops in work:
            try:
                reqs.append(("locator", model_payload(world, files, two, ops)))
            except OutsideFragment as e:
                reqs.append(None)
                res.skipped_outside_fragment += len(ops)
        outs = model.batch([r for r in reqs if r is not None])
        it = iter(outs)
        for (kind, files, two, ops), rq in zip(work, reqs):
            if rq is None:
                continue
            mo = next(it)
            res.count("tree:" + kind)
            res.count("files:" + str(len(files)))
            run_tree(world, files, two, ops, res, mo, {"tree": files, "two_roots": two})
        marks.append(("trees", time.time(), time.process_time()))
        # end-to-end stage: which file a relative import is resolved against (every way a file is reached)
        c13walk.run_stage(world, res, tier, seed, model, py_resolve, fs_first_match, U.is_in_stdlib)
        marks.append(("walk", time.time(), time.process_time()))
        # symbolic links on the search path: located origins, file <-> name round trips, followed / starred files
        c13links.run_stage(sys.modules[__name__], world, res, tier, seed, model)
        marks.append(("links", time.time(), time.process_time()))
        res.extra["stage_seconds_wall_cpu"] = {b[0]: [round(b[1] - a[1], 1), round(b[2] - a[2], 1)]
                                               for a, b in zip(marks, marks[1:])}
        res.extra["exhaustive"] = True
        res.extra["trees"] = len(work)
    finally:
        world.close()
    res.assumptions = [
        "importlib.util.resolve_name is Python's relative-import rule; __package__ of pkg/__init__.py is pkg, of pkg/mod.py is pkg, of a top-level module is ''",
        "[interp] 'exists on the search path' = a module file a/b.py or a package a/b/__init__.py below some search root, first root wins, package before module (per-root view; packages split across roots are judged per root)",
        "[interp] the search order is the documented one: sys.path[0] (cwd), rattr's own root, sys.path[1:]",
        "[interp] the round trip is required only of a file that is the first match of its own dotted name",
        "stdlib classification (isort.place_module) and the stdlib finder are per-case inputs to the model, taken from the real functions; 'json' is imported before any case runs, as it is in the rattr CLI",
        "namespace packages, .pth files, zip imports are not represented",
        "[interp] symbolic links: 'locates that same file' = the located origin is the path AS SPELLED below the resolved search root (realpath(root)/a/b.py), not merely a path to the same inode; a file reached through a link is the module Python imports it as (links are followed by is_file/is_dir, the import system keys modules by the path they were found under); `Path.resolve()` enters the model as a link table checked against os.path.realpath on every path it is applied to",
        "symbolic-link stages: link loops, links to a parent directory, and (end-to-end stage only) two links leading to one file are kept out of the generated layouts",
        "[interp] end-to-end stage: an Import symbol's qualified name is rattr's statement of the module the import resolved to; the statement a symbol derives from is identified by its (project-unique) line number, the file actually read by its marker function; a star import may only deliver names bound at module level of the module Python resolves it to",
        "[interp] an escaping relative import counts as diagnosed when an error/fatal diagnostic is raised at its line; a valid one whose module exists must raise none and must not end the run in the resolver's AssertionError/ValueError",
        "end-to-end stage: `from a.b import *` outside an __init__.py (rattr raises ValueError while wording the warning) is kept out of the generated projects except with a one-component module",
    ]
    return res


def replay(path):
    j = json.load(open(path))
    case = j.get("case")
    print(json.dumps(j, indent=1)[:4000])
    if case and case.get("stage") == "walk":
        world = World()
        try:
            return c13walk.replay_case(world, case, py_resolve, fs_first_match)
        finally:
            world.close()
    if case and case.get("stage") == "links":
        world = World()
        try:
            return c13links.replay_case(sys.modules[__name__], world, case)
        finally:
            world.close()
    if not case or "tree" not in case:
        return 0
    world = World()
    try:
        res = common.Result(PID)
        ops = [case["op"]] if "session" not in case["op"] else None
        if ops is None:
            # a session op depends on the whole session: regenerate the tree's ops with the stored seed
            allops = None
            for k in range(0, 5000):
                cand = make_ops(case["tree"], random.Random(j.get("seed", 0) * 1000003 + k), "quick")
                if case["op"] in cand:
                    allops = [o for o in cand if "session" in o and o["session"] <= case["op"]["session"]]
                    break
            ops = allops or [case["op"]]
        model = common.Model()
        mo = model.batch([("locator", model_payload(world, case["tree"], case["two_roots"], ops))])[0]
        run_tree(world, case["tree"], case["two_roots"], ops, res, mo, {"tree": case["tree"], "two_roots": case["two_roots"]})
        print("MODEL:", json.dumps(mo)[:2000])
        print("VIOLATIONS:", json.dumps(res.violations, indent=1, default=str)[:4000])
        print("DISAGREEMENTS:", json.dumps(res.disagreements, indent=1, default=str)[:2000])
    finally:
        world.close()
    return 0

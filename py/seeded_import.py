"""Confirm a sub-agent's seeded change in a scratch worktree and file it under /verif/seeded/.

usage: seeded_import.py <agent out dir>/m<k> <PROPERTY ID> <seeded id>
Confirms: patch applies; demo exits 0 on the pristine tree and 1 with the patch; the unedited suite
gives the same failing ids with and without the patch.
"""
from __future__ import annotations

import json
import re
import shutil
import subprocess
import sys
import tempfile
from pathlib import Path

VERIF = Path(__file__).resolve().parent.parent
BASE_FAIL = None


def sh(cmd, **kw):
    return subprocess.run(cmd, capture_output=True, text=True, **kw)


def suite(wt):
    r = sh(["/venv/bin/python", "-m", "pytest", "-q", "-p", "no:cacheprovider", "--timeout=900"], cwd=str(wt), timeout=1800)
    out = r.stdout + r.stderr
    failed = sorted(set(re.findall(r"^FAILED (\S+)", out, re.M)))
    m = re.search(r"(\d+) failed, (\d+) passed", out)
    sh(["git", "-C", str(wt), "checkout", "rattr/_version.py"])
    return failed, (m.group(0) if m else out[-200:])


def run_demo(demo: Path, wt):
    cmd = (["/venv/bin/python", str(demo), str(wt)] if demo.suffix == ".py" else ["bash", str(demo), str(wt)])
    r = sh(cmd, timeout=600)
    return r.returncode, (r.stdout + r.stderr)[-600:]


def main(src, pid, sid):
    src = Path(src)
    demo = next((src / n for n in ("demo.py", "demo.sh") if (src / n).exists()), None)
    assert demo is not None and (src / "patch.diff").exists()
    wt = Path(tempfile.mkdtemp(prefix="rattr-seedimp-"))
    wt.rmdir()
    meta = {"property": pid, "id": sid}
    try:
        assert sh(["git", "-C", "/repo", "worktree", "add", "--detach", str(wt)]).returncode == 0
        base_failed, base_summary = suite(wt)
        rc0, out0 = run_demo(demo, wt)
        r = sh(["git", "-C", str(wt), "apply", str(src / "patch.diff")])
        assert r.returncode == 0, r.stderr
        rc1, out1 = run_demo(demo, wt)
        failed, summary = suite(wt)
        meta.update({
            "demo_exit_pristine": rc0, "demo_exit_patched": rc1,
            "suite_pristine": base_summary, "suite_patched": summary,
            "suite_same_failing_ids": failed == base_failed,
            "confirmed": rc0 == 0 and rc1 != 0 and failed == base_failed,
            "ran": ["git worktree add; demo on pristine; git apply patch.diff; demo on patched; pytest -q (unedited suite) on both"],
            "demo_output_patched": out1[-400:],
        })
    finally:
        sh(["git", "-C", "/repo", "worktree", "remove", "--force", str(wt)])
    dst = VERIF / "seeded" / sid
    dst.mkdir(parents=True, exist_ok=True)
    shutil.copy2(src / "patch.diff", dst / "patch.diff")
    shutil.copy2(demo, dst / demo.name)
    if (src / "README.md").exists():
        shutil.copy2(src / "README.md", dst / "NOTES.md")
        txt = (src / "README.md").read_text()
        meta["needs_to_manifest"] = next((l.strip() for l in txt.splitlines() if re.search(r"need|manifest|require", l, re.I)), "")[:400]
    (dst / "meta.json").write_text(json.dumps(meta, indent=1))
    print(sid, "confirmed" if meta.get("confirmed") else "NOT CONFIRMED", meta.get("demo_exit_pristine"), meta.get("demo_exit_patched"), meta.get("suite_patched"))
    return 0


if __name__ == "__main__":
    sys.exit(main(*sys.argv[1:4]))

COMMON_NOTE = ("Trusted: Lean 4.33 kernel; axioms ⊆ {propext, Classical.choice, Quot.sound} (audited by #print axioms each run; "
               "no sorry/native_decide/bv_decide/custom axioms); py/extract.py (Tie A) and the differential harness + Lean driver (Tie B, sampled); "
               "the hand-written model is tied to the code only through those two ties. ")

CHECKS = {
    "C04": dict(
        technique="Lean 4 theorems about a hand model of construct_call_swaps + exhaustive differential correspondence against the real function and CPython's call binding",
        text=("Lean theorems (all signatures and calls, no size bound) that every arity-rejection class is diagnosed and positional/keyword binding maps "
              "each parameter to exactly its argument; counterexample theorems for the three defect classes of the pinned code; the model is tied to "
              "construct_call_swaps by exhaustive enumeration (≥35k signature×call cases) on every run and the spec to real CPython calls."),
        ref="§5 C04",
        note=COMMON_NOTE + "Full statement C04_full is refuted (C04_full_false); the three refuting classes are known findings. [interp] missing-required-argument calls are not required to be diagnosed.",
    ),
}

NOT_APPLICABLE = {}

"""Shared machinery of the checks: build, audit, Lean driver, evidence, findings, verdicts."""
from __future__ import annotations

import fcntl
import hashlib
import json
import os
import re
import subprocess
import sys
import time
from pathlib import Path

VERIF = Path(__file__).resolve().parent.parent
LEAN = VERIF / "lean"
EVIDENCE = VERIF / "evidence"
REPLAYS = EVIDENCE / "replays"
# debugging runs (--no-build, a scratch RATTR_REPO) must never overwrite the committed evidence records
EVIDENCE_OUT = Path(os.environ.get("VERIF_EVIDENCE_DIR") or (EVIDENCE if os.environ.get("RATTR_REPO", "/repo") == "/repo" else EVIDENCE / "scratch"))
REPO = Path(os.environ.get("RATTR_REPO", "/repo"))
VENV_PY = "/venv/bin/python"
DRIVER = LEAN / ".lake" / "build" / "bin" / "rattr_model"

ALLOWED_AXIOMS = {"propext", "Classical.choice", "Quot.sound"}
FORBIDDEN = re.compile(
    r"\bsorry\b|\badmit\b|^axiom\s|native_decide|bv_decide|implemented_by|\bunsafe\s|maxHeartbeats\s+0\b",
    re.M,
)

TRUSTED_BASE = [
    "Lean 4.33.0 kernel (leanchecker re-check in thorough tier)",
    "axioms allowed: propext, Classical.choice, Quot.sound (audited per theorem by #print axioms)",
    "py/extract.py (Tie A: tables regenerated from /repo's working tree)",
    "correspondence harness py/props/*.py + Lean driver RattrDriver/* (Tie B: differential, sampled)",
    "the Lean statements in RattrModel/Spec/* and RattrProofs/Props/* as the reading of the English property",
]


class Lock:
    def __init__(self, name="build"):
        self.path = LEAN / f".{name}.lock"

    def __enter__(self):
        self.f = open(self.path, "w")
        fcntl.flock(self.f, fcntl.LOCK_EX)
        return self

    def __exit__(self, *a):
        fcntl.flock(self.f, fcntl.LOCK_UN)
        self.f.close()


def run(cmd, cwd=None, timeout=3600, env=None, input=None):
    e = dict(os.environ)
    if env:
        e.update(env)
    p = subprocess.run(cmd, cwd=cwd, timeout=timeout, env=e, input=input, capture_output=True,
                       text=True)
    return p.returncode, p.stdout, p.stderr


def strip_comments(src: str) -> str:
    # remove /- ... -/ (nested not handled beyond one level, fine for our files) and -- comments
    out = []
    i, n, depth = 0, len(src), 0
    while i < n:
        if src.startswith("/-", i):
            depth += 1
            i += 2
            continue
        if src.startswith("-/", i) and depth > 0:
            depth -= 1
            i += 2
            continue
        if depth == 0:
            if src.startswith("--", i):
                j = src.find("\n", i)
                i = n if j < 0 else j
                continue
            out.append(src[i])
        i += 1
    return "".join(out)


class BuildResult:
    def __init__(self):
        self.ok = True
        self.broken = []  # list of dicts {stage, detail}
        self.theorems = {}  # name -> axioms list
        self.log = ""


def extract_tables(br: BuildResult, names):
    """Regenerate all Generated/*.lean (cheap). Only a failure to extract a table this property
    depends on (`names`) breaks this property's tie."""
    rc, out, err = run([VENV_PY, str(VERIF / "py" / "extract.py")], cwd=str(VERIF), timeout=600)
    failed = set(re.findall(r"EXTRACT-FAILED (\S+)", out))
    mine = {n.upper() for n in names}
    if (rc != 0 and not failed) or (failed & mine):
        br.ok = False
        br.broken.append({"stage": "extract (Tie A)", "tables": sorted(failed & mine) or "all", "detail": (out + err)[-2000:]})


def lake_build(targets, br: BuildResult, stage="lake build"):
    rc, out, err = run(["lake", "build", *targets], cwd=str(LEAN), timeout=3000)
    br.log += out + err
    if rc != 0:
        br.ok = False
        lines = [l for l in (out + err).splitlines() if "error" in l.lower()]
        br.broken.append({"stage": stage, "targets": targets, "detail": "\n".join(lines[:40]) or (out + err)[-2000:]})
    return rc == 0


THEOREM_RE = re.compile(r"^\s*(?:@\[[^\]]*\]\s*)?(?:private\s+|protected\s+)?theorem\s+([A-Za-z_][\w'.?!]*)", re.M)


def property_theorems(pid: str):
    """Names (fully qualified) of the property theorems in RattrProofs/Props/<pid>.lean."""
    f = LEAN / "RattrProofs" / "Props" / f"{pid}.lean"
    src = strip_comments(f.read_text())
    ns = re.search(r"^namespace\s+([\w.]+)", src, re.M)
    prefix = (ns.group(1) + ".") if ns else ""
    return [prefix + m for m in THEOREM_RE.findall(src)]


def grep_forbidden(pid: str):
    hits = []
    files = list((LEAN / "RattrModel").rglob("*.lean")) + list((LEAN / "RattrProofs").rglob("*.lean"))
    for f in files:
        src = strip_comments(f.read_text())
        for m in FORBIDDEN.finditer(src):
            hits.append(f"{f.relative_to(LEAN)}: {m.group(0).strip()}")
    return hits


def audit(pid: str, br: BuildResult):
    names = property_theorems(pid)
    if not names:
        br.ok = False
        br.broken.append({"stage": "audit", "detail": f"no theorems found for {pid}"})
        return
    tmp = LEAN / ".lake" / f"audit_{pid}.lean"
    tmp.parent.mkdir(exist_ok=True)
    body = f"import RattrProofs.Props.{pid}\n" + "\n".join(f"#print axioms {n}" for n in names) + "\n"
    tmp.write_text(body)
    rc, out, err = run(["lake", "env", "lean", str(tmp)], cwd=str(LEAN), timeout=1200)
    txt = out + err
    if rc != 0:
        br.ok = False
        br.broken.append({"stage": "audit", "detail": txt[-2000:]})
        return
    # parse: 'X' depends on axioms: [a, b]   |   'X' does not depend on any axioms
    txt1 = re.sub(r"\s+", " ", txt)
    for n in names:
        m = re.search(r"'" + re.escape(n) + r"' (does not depend on any axioms|depends on axioms: \[([^\]]*)\])", txt1)
        if not m:
            br.ok = False
            br.broken.append({"stage": "audit", "detail": f"no axiom report for {n}"})
            continue
        axs = [] if m.group(2) is None else [a.strip() for a in m.group(2).split(",") if a.strip()]
        br.theorems[n] = axs
        bad = [a for a in axs if a not in ALLOWED_AXIOMS]
        if bad:
            br.ok = False
            br.broken.append({"stage": "audit", "theorem": n, "detail": f"inadmissible axioms {bad}"})
    hits = grep_forbidden(pid)
    if hits:
        br.ok = False
        br.broken.append({"stage": "grep", "detail": "; ".join(hits[:20])})


def prepare(pid: str, tier: str, tables=None) -> BuildResult:
    """Tie A + build + audit, serialised across concurrently running checks."""
    br = BuildResult()
    with Lock():
        extract_tables(br, [pid] + list(tables or []))
        # the driver first: it does not depend on the proofs, so the search can run even if a
        # proof obligation broke.
        lake_build(["rattr_model"], br, stage="lake build (model+driver)")
        if lake_build([f"RattrProofs.Props.{pid}"], br, stage="lake build (proofs)"):
            audit(pid, br)
        if tier == "thorough" and br.ok:
            rc, out, err = run(["lake", "env", "leanchecker", f"RattrProofs.Props.{pid}"], cwd=str(LEAN), timeout=3000)
            if rc != 0:
                br.ok = False
                br.broken.append({"stage": "leanchecker", "detail": (out + err)[-2000:]})
    return br


class Model:
    """Batch interface to the compiled Lean driver."""

    def __init__(self):
        self.available = DRIVER.exists()

    def batch(self, reqs):
        """reqs: list of (op, payload) -> list of out (or {'__error__': msg})."""
        if not reqs:
            return []
        if not self.available:
            return [{"__error__": "driver not built"} for _ in reqs]
        lines = "\n".join(json.dumps({"op": op, "id": i, "payload": p}) for i, (op, p) in enumerate(reqs)) + "\n"
        p = subprocess.run([str(DRIVER)], input=lines, capture_output=True, text=True, timeout=3000)
        outs = [{"__error__": "no response"} for _ in reqs]
        for line in p.stdout.splitlines():
            try:
                j = json.loads(line)
            except Exception:
                continue
            i = j.get("id")
            if isinstance(i, int) and 0 <= i < len(outs):
                outs[i] = j["out"] if "out" in j else {"__error__": j.get("error", "?")}
        return outs


def canon(x):
    return json.dumps(x, sort_keys=True, default=str)


def digest(x):
    return hashlib.sha1(canon(x).encode()).hexdigest()[:12]


def load_findings(pid):
    f = VERIF / "known_findings.json"
    if not f.exists():
        return []
    return [e for e in json.loads(f.read_text())["findings"] if e["property"] == pid]


class Result:
    """What a property module returns."""

    def __init__(self, pid):
        self.pid = pid
        self.evaluations = 0
        self.nontrivial = set()
        self.rule = ""
        self.samples = []
        self.distribution = {}
        self.disagreements = []   # model vs implementation: dict(case, impl, model)
        self.violations = []      # property oracle on the implementation: dict(signature, case, detail)
        self.internal_errors = [] # machinery self-check failures -> exit 2
        self.skipped_outside_fragment = 0
        self.extra = {}
        self.assumptions = []

    def count(self, key, n=1):
        self.distribution[key] = self.distribution.get(key, 0) + n

    def sample(self, x, cap=6):
        if len(self.samples) < cap:
            self.samples.append(x)


def finish(pid, tier, seed, br: BuildResult, res: Result, t0, level_text=""):
    """Turn build result + run result into evidence, stdout lines and an exit code."""
    EVIDENCE.mkdir(exist_ok=True)
    REPLAYS.mkdir(exist_ok=True)
    findings = load_findings(pid)
    known = {f["signature"]: f for f in findings if f.get("status", "known") == "known"}
    fixed = {f["signature"]: f for f in findings if f.get("status") == "fixed"}

    lines = []
    exit_code = 0
    confirmed = {}
    new_violations = []
    for v in res.violations:
        sig = v["signature"]
        if sig in known:
            confirmed.setdefault(sig, v)
        else:
            new_violations.append(v)

    for sig, v in sorted(confirmed.items()):
        f = known[sig]
        lines.append(f"KNOWN-FINDING: property={pid} {sig}: {f.get('what', '')} [witness: {canon(v.get('case'))[:160]}]")
    stale = [s for s in known if s not in confirmed]

    n_viol = 0
    seen_sigs = set()
    for v in new_violations:
        if v["signature"] in seen_sigs:
            continue
        seen_sigs.add(v["signature"])
        if n_viol >= 8:
            continue        # at most 8 replay files / VIOLATION lines per run; the rest are counted
        n_viol += 1
        path = REPLAYS / f"{pid}-{tier}-{seed}-{n_viol}.json"
        path.write_text(json.dumps({"property": pid, "kind": "failing-input", "seed": seed, **v,
                                    "broken_obligations": br.broken}, indent=1, default=str))
        lines.append(f"VIOLATION property={pid} replay={path.relative_to(VERIF)}")
        exit_code = 1

    if (not br.ok or res.disagreements) and n_viol == 0:
        # a proof obligation / tie / correspondence no longer checks and the search found no
        # failing input for the property itself.
        n_viol += 1
        path = REPLAYS / f"{pid}-{tier}-{seed}-broken.json"
        path.write_text(json.dumps({"property": pid, "kind": "broken-obligation", "seed": seed,
                                    "broken_obligations": br.broken,
                                    "correspondence_disagreements": res.disagreements[:5],
                                    "n_disagreements": len(res.disagreements)}, indent=1, default=str))
        lines.append(f"VIOLATION property={pid} replay={path.relative_to(VERIF)} no-failing-input-found")
        exit_code = 1

    if res.internal_errors and exit_code == 0:
        exit_code = 2
        for e in res.internal_errors[:5]:
            lines.append(f"INTERNAL-ERROR: {pid} {canon(e)[:400]}")

    obligations = len(property_theorems(pid)) if (LEAN / "RattrProofs" / "Props" / f"{pid}.lean").exists() else 0
    discharged = len([n for n, ax in br.theorems.items() if all(a in ALLOWED_AXIOMS for a in ax)])
    ev = {
        "property_id": pid,
        "tier": tier,
        "seed": seed,
        "level": "proof",
        "coverage": {
            "obligations": obligations,
            "discharged": discharged,
            "checker_cmd": f"cd lean && lake build RattrProofs.Props.{pid} && lake env lean .lake/audit_{pid}.lean  (#print axioms on every property theorem)"
            + (" && lake env leanchecker RattrProofs.Props." + pid if tier == "thorough" else ""),
            "trusted_base": TRUSTED_BASE,
            "theorems": br.theorems,
            "broken_obligations": br.broken,
            "evaluations": res.evaluations,
            "distinct_nontrivial": len(res.nontrivial),
            "rule": res.rule,
            "samples": res.samples,
            "programs": res.evaluations,
            "disagreements_checked": len(res.disagreements),
            "distribution": res.distribution,
            "skipped_outside_fragment": res.skipped_outside_fragment,
            "known_findings_confirmed": sorted(confirmed),
            "stale_findings": stale,
            "fixed_findings": sorted(fixed),
            **res.extra,
        },
        "assumptions": res.assumptions,
        "wall_s": round(time.time() - t0, 2),
        "violations": n_viol if exit_code == 1 else 0,
    }
    EVIDENCE_OUT.mkdir(parents=True, exist_ok=True)
    (EVIDENCE_OUT / f"{pid}.json").write_text(json.dumps(ev, indent=1, default=str))
    for l in lines:
        print(l)
    print(f"[{pid}] tier={tier} seed={seed} obligations={obligations} discharged={discharged} "
          f"evaluations={res.evaluations} nontrivial={len(res.nontrivial)} disagreements={len(res.disagreements)} "
          f"violations={n_viol if exit_code == 1 else 0} known={len(confirmed)} wall={ev['wall_s']}s exit={exit_code}")
    return exit_code

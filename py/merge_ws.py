"""Merge a builder agent's private copy of /verif back: merge_ws.py <workspace> <PID> [--dry]

New files are copied, tracked files are patched (3-way) with the workspace's diff against its own HEAD,
known_findings.json is merged per property (the workspace's entries for PID replace ours), evidence,
seeded evaluations, generated tables and MANIFEST.json are skipped (regenerated here).
"""
from __future__ import annotations

import json
import shutil
import subprocess
import sys
from pathlib import Path

V = Path(__file__).resolve().parent.parent
SKIP_PREFIX = ("evidence/", "seeded/", "lean/RattrModel/Generated/", "MANIFEST.json", "lean/.lake", "known_findings.json")


def sh(cmd, cwd=None, inp=None):
    return subprocess.run(cmd, cwd=cwd, input=inp, capture_output=True, text=True)


def main(ws, pid, dry=False):
    ws = Path(ws)
    st = sh(["git", "status", "--porcelain", "-uall"], cwd=ws).stdout.splitlines()
    new, mod = [], []
    for l in st:
        code, path = l[:2], l[3:]
        if path.startswith(SKIP_PREFIX) or "__pycache__" in path:
            continue
        (new if code == "??" else mod).append(path)
    print("new:", new)
    print("modified:", mod)
    if dry:
        return 0
    for p in new:
        (V / p).parent.mkdir(parents=True, exist_ok=True)
        shutil.copy2(ws / p, V / p)
    bad = []
    for p in mod:
        d = sh(["git", "diff", "HEAD", "--", p], cwd=ws).stdout
        if not d.strip():
            continue
        r = sh(["git", "apply", "--3way", "--whitespace=nowarn", "-"], cwd=V, inp=d)
        if r.returncode != 0:
            # additive edits on both sides (dispatch lines, imports): keep both
            txt = (V / p).read_text()
            if "<<<<<<< ours" in txt and p.endswith((".lean", ".py")):
                import re
                txt = re.sub(r"<<<<<<< ours\n(.*?)=======\n(.*?)>>>>>>> theirs\n", lambda m: m.group(1) + m.group(2), txt, flags=re.S)
                (V / p).write_text(txt)
                sh(["git", "add", p], cwd=V)
                print("AUTO-RESOLVED (kept both sides):", p)
            else:
                bad.append((p, r.stderr[-300:]))
    # known findings: workspace's entries for PID replace ours
    mine = json.loads((V / "known_findings.json").read_text())
    theirs = json.loads((ws / "known_findings.json").read_text())
    t = [e for e in theirs["findings"] if e["property"] == pid]
    m = [e for e in mine["findings"] if e["property"] == pid]
    ms, ts = {e["signature"] for e in m}, {e["signature"] for e in t}
    print("findings removed:", sorted(ms - ts))
    print("findings added:", sorted(ts - ms))
    mine["findings"] = [e for e in mine["findings"] if e["property"] != pid] + t
    (V / "known_findings.json").write_text(json.dumps(mine, indent=1, ensure_ascii=False))
    for p, e in bad:
        print("CONFLICT", p, e)
    return 1 if bad else 0


if __name__ == "__main__":
    sys.exit(main(sys.argv[1], sys.argv[2].upper(), "--dry" in sys.argv))

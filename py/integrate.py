"""Copy one builder workspace's new files into /verif and merge the shared files (dev tool)."""
import json, shutil, subprocess, sys
from pathlib import Path

def main(ws, pids, ops):
    ws = Path(ws); V = Path('/verif')
    out = subprocess.run(['git','status','--short'],cwd=ws,capture_output=True,text=True).stdout
    for line in out.splitlines():
        st, path = line[:2], line[3:]
        if st.strip()=='??':
            src = ws/path
            if path.startswith('evidence/') or path.endswith('.pyc') or '__pycache__' in path: continue
            dst = V/path
            if src.is_dir():
                shutil.copytree(src,dst,dirs_exist_ok=True)
            else:
                dst.parent.mkdir(parents=True,exist_ok=True); shutil.copy2(src,dst)
            print('copied',path)
        else:
            print('MODIFIED (merge by hand):',path)
    # findings
    mine = json.load(open(V/'known_findings.json')); theirs = json.load(open(ws/'known_findings.json'))
    have = {(f['property'],f['signature']) for f in mine['findings']}
    for f in theirs['findings']:
        if f['property'] in pids and (f['property'],f['signature']) not in have:
            mine['findings'].append(f); print('finding',f['property'],f['signature'])
    json.dump(mine,open(V/'known_findings.json','w'),indent=1,ensure_ascii=False)
    # driver registration
    rd = (V/'lean/RattrDriver.lean').read_text(); mn=(V/'lean/Main.lean').read_text()
    for pid in pids:
        imp=f"import RattrDriver.{pid}\n"
        if (V/f'lean/RattrDriver/{pid}.lean').exists() and imp not in rd: rd+=imp
    for op,handler in ops:
        line=f'  | "{op}" => {handler} payload\n'
        if line not in mn:
            mn=mn.replace('  | _ => .error s!"unknown op {op}"', line+'  | _ => .error s!"unknown op {op}"')
    (V/'lean/RattrDriver.lean').write_text(rd); (V/'lean/Main.lean').write_text(mn)

if __name__=='__main__':
    ws=sys.argv[1]; pids=sys.argv[2].split(','); ops=[tuple(x.split('=')) for x in sys.argv[3:]]
    main(ws,pids,ops)
